#!/usr/bin/env python3
"""c2coq: translate selected C functions of /repo (clang's JSON AST is the parser) to Gallina.

    c2coq.py <repo> <out.v>

Subset: integer expressions (with the width of every C type made explicit: results of unsigned
arithmetic are reduced mod 2^w, signed arithmetic is assumed not to overflow), locals, assignments
and compound assignments, if/else, early returns at the top level, calls of other translated
functions, arrays as lists (reads with default 0, writes by update), struct members reached through
a pointer parameter as separate variables, for/while loops (unrolled when init/bound/step are
literal constants, otherwise a fuelled combinator returning None when the fuel runs out), plain
`char*` walked with ++ and * as a byte-list suffix.  Values are Z.  Anything outside the subset
aborts the translation of that function with a comment in the output (its obligations then fail).

The output is re-created from /repo's working tree on every run; the lemmas in coq/CTie.v relate
each generated definition to the hand-written mirror used by the theorems, so a change to one of
these functions is re-checked by Coq itself rather than only sampled by differential execution."""
import json
import re
import subprocess
import sys

WIDTH = {"unsigned int": (32, False), "int": (32, True), "unsigned long": (64, False), "long": (64, True),
         "unsigned char": (8, False), "unsigned short": (16, False), "char": (8, True), "signed char": (8, True),
         "short": (16, True), "_Bool": (1, False), "bool": (1, False), "unsigned long long": (64, False),
         "long long": (64, True)}


class Unsupported(Exception):
    pass


# translated as the release build compiles them (the self-test of polyseed_inject is under #ifndef NDEBUG)
NDEBUG_FUNCS = {"polyseed_inject"}


def ast_of(repo, src, fn):
    cmd = ["clang", "-std=c11", "-fsyntax-only", "-iquote", repo + "/src", "-I", repo + "/include"] + \
          (["-DNDEBUG"] if fn in NDEBUG_FUNCS else []) + \
          ["-Xclang", "-ast-dump=json", "-Xclang", "-ast-dump-filter=" + fn, repo + "/src/" + src]
    txt = subprocess.run(cmd, stdout=subprocess.PIPE, stderr=subprocess.DEVNULL, universal_newlines=True).stdout
    dec = json.JSONDecoder()
    i = 0
    best = None
    while i < len(txt):
        while i < len(txt) and txt[i] in " \n\r\t":
            i += 1
        if i >= len(txt):
            break
        d, i = dec.raw_decode(txt, i)
        if d.get("kind") in ("FunctionDecl", "VarDecl") and d.get("name") == fn:
            if any(c.get("kind") in ("CompoundStmt", "InitListExpr") for c in d.get("inner", [])):
                best = d
    if best is None:
        raise Unsupported("no definition of %s in %s" % (fn, src))
    return best


def ctype(node):
    t = node.get("type", {})
    q = t.get("desugaredQualType") or t.get("qualType", "")
    q = q.replace("const ", "").replace("volatile ", "").strip()
    return q


def cval(e):
    """the integer a translated expression denotes if it is a literal, else None"""
    t = e.strip()
    if t.startswith("(") and t.endswith(")") and balanced_outer(t):
        return cval(t[1:-1])
    if t.startswith("- "):
        v = cval(t[2:])
        return -v if v is not None else None
    if t.lstrip("-").isdigit() and t.count("-") <= 1 and (t[0] != "-" or len(t) > 1):
        return int(t)
    return None


def lit(v):
    return str(v) if v >= 0 else "(%d)" % v


def balanced_outer(e):
    """e is one parenthesised term"""
    if not (e.startswith("(") and e.endswith(")")):
        return False
    d = 0
    for i, ch in enumerate(e):
        if ch == "(":
            d += 1
        elif ch == ")":
            d -= 1
            if d == 0 and i != len(e) - 1:
                return False
    return True


def wrap(e, ty):
    """reduce e to the range of integer type ty (unsigned: mod 2^w; signed: assumed in range)"""
    if ty in WIDTH:
        w, signed = WIDTH[ty]
        if not signed:
            v = cval(e)
            if v is not None:
                return lit(v % 2 ** w)
            if e.endswith(" mod %d)" % 2 ** w) and balanced_outer(e):
                return e
            return "(%s mod %d)" % (e, 2 ** w)
    return e


def strip(n):
    while n.get("kind") in ("ImplicitCastExpr", "ParenExpr", "CStyleCastExpr"):
        n = n["inner"][0]
    return n


def cquot(a, b):
    q = abs(a) // abs(b)
    return q if (a >= 0) == (b >= 0) else -q


def branch_vals_whole(fn, m, whole):
    """the values of the join variables at the end of a branch, arrays of `whole` as complete lists"""
    def f():
        out = []
        for x in m:
            if x in whole:
                out.append(fn.array_value(x))
            else:
                out.append(lit(fn.consts[x]) if x in fn.consts else x)
        return fn.tup(out)
    return f


class Fn:
    """one C function.  Constants are propagated and folded while translating (a variable whose
    value is a known integer is replaced by it; a condition that folds to a constant selects its
    branch; a loop is unrolled for as long as its condition folds to true), so code whose control
    flow does not depend on data comes out as straight-line data flow."""

    def __init__(self, name, node, globals_rw, known):
        self.name = name
        self.node = node
        self.globals_rw = globals_rw
        self.known = known
        self.char_ptrs = set()
        self.uses_option = False
        self.consts = {}
        self.asserts = []
        self.elems = {}
        self.arr_len = {}
        self.ptrs = {}
        self.ret_hook = None
        self.repo = None
        self.loop_exit = []
        self.loop_cont = []
        self.uses_fuel = False
        self.deps_used = set()
        self.exts_used = []
        self.str_arrays = set()
        self.fuelled = 0

    # ---------------------------------------------------------------- expressions
    def lval_name(self, n):
        k = n["kind"]
        if k == "ParenExpr" or k == "ImplicitCastExpr":
            return self.lval_name(n["inner"][0])
        if k == "DeclRefExpr":
            return n["referencedDecl"]["name"]
        if k == "MemberExpr":
            base = self.lval_name(n["inner"][0])
            return base + "_" + n["name"]
        raise Unsupported("lvalue " + k)

    def E(self, n):
        k = n["kind"]
        if k == "IntegerLiteral":
            return n["value"]
        if k == "CharacterLiteral":
            return str(n["value"])
        if k == "ParenExpr":
            return self.E(n["inner"][0])
        if k in ("DeclRefExpr", "MemberExpr"):
            if k == "DeclRefExpr" and n.get("referencedDecl", {}).get("kind") == "EnumConstantDecl":
                nm = n["referencedDecl"]["name"]
                if nm not in ENUMS:
                    raise Unsupported("enumerator " + nm)
                return lit(ENUMS[nm])
            name = self.lval_name(n)
            if name in self.consts:
                return lit(self.consts[name])
            return name
        if k in ("ImplicitCastExpr", "CStyleCastExpr"):
            ck = n.get("castKind")
            inner = n["inner"][0]
            if ck in ("LValueToRValue", "NoOp", "ArrayToPointerDecay", "FunctionToPointerDecay"):
                return self.E(inner)
            if ck == "IntegralCast":
                e = self.E(inner)
                ty = ctype(n)
                ity = ctype(inner)
                if cval(e) is None and ity in WIDTH and ty in WIDTH and not WIDTH[ity][1] and WIDTH[ity][0] <= WIDTH[ty][0]:
                    return e          # widening of an unsigned value never changes it
                return wrap(e, ty)
            if ck == "NullToPointer":
                return "0"
            if ck in ("BitCast",):
                return self.E(inner)
            if ck == "IntegralToBoolean":
                c = self.C(inner)
                return {"true": "1", "false": "0"}.get(c, "(if %s then 1 else 0)" % c)
            raise Unsupported("cast " + str(ck))
        if k == "UnaryOperator":
            op = n["opcode"]
            a = n["inner"][0]
            ty = ctype(n)
            if op == "-":
                e = self.E(a)
                v = cval(e)
                return wrap(lit(-v) if v is not None else "(- %s)" % e, ty)
            if op == "~":
                e = self.E(a)
                v = cval(e)
                if ty in WIDTH and not WIDTH[ty][1]:
                    m = 2 ** WIDTH[ty][0] - 1
                    return lit(m - v) if v is not None else "(%d - %s)" % (m, e)
                return lit(-v - 1) if v is not None else "(- %s - 1)" % e
            if op == "!":
                c = self.C(a)
                return {"true": "0", "false": "1"}.get(c, "(if %s then 0 else 1)" % c)
            if op == "*":
                cp = self.char_ptr_expr(a)
                if cp is not None:
                    return "(rdc sgn %s)" % cp
                base, off = self.pointee(a)
                return self.elem_read(base, off)
            raise Unsupported("unary " + op)
        if k == "BinaryOperator":
            op = n["opcode"]
            a, b = n["inner"]
            ty = ctype(n)
            if op in ("<", ">", "<=", ">=", "==", "!=", "&&", "||"):
                c = self.C(n)
                return {"true": "1", "false": "0"}.get(c, "(if %s then 1 else 0)" % c)
            ea, eb = self.E(a), self.E(b)
            va, vb = cval(ea), cval(eb)
            signed = ty in WIDTH and WIDTH[ty][1]
            if va is not None and vb is not None:
                r = None
                if op == "+":
                    r = va + vb
                elif op == "-":
                    r = va - vb
                elif op == "*":
                    r = va * vb
                elif op == "/" and vb != 0:
                    r = cquot(va, vb)
                elif op == "%" and vb != 0:
                    r = va - vb * cquot(va, vb)
                elif op == "&":
                    r = va & vb
                elif op == "|":
                    r = va | vb
                elif op == "^":
                    r = va ^ vb
                elif op == "<<" and 0 <= vb < 64:
                    r = va << vb
                elif op == ">>" and 0 <= vb < 64:
                    r = va >> vb
                if r is not None:
                    return wrap(lit(r), ty)
            if op == "+":
                return wrap("(%s + %s)" % (ea, eb), ty)
            if op == "-":
                return wrap("(%s - %s)" % (ea, eb), ty)
            if op == "*":
                return wrap("(%s * %s)" % (ea, eb), ty)
            if op == "/":
                return "(Z.quot %s %s)" % (ea, eb) if signed else "(%s / %s)" % (ea, eb)
            if op == "%":
                return "(Z.rem %s %s)" % (ea, eb) if signed else "(%s mod %s)" % (ea, eb)
            if op == "&":
                return "(Z.land %s %s)" % (ea, eb)
            if op == "|":
                return "(Z.lor %s %s)" % (ea, eb)
            if op == "^":
                return "(Z.lxor %s %s)" % (ea, eb)
            if op == "<<":
                return wrap("(Z.shiftl %s %s)" % (ea, eb), ty)
            if op == ">>":
                return "(Z.shiftr %s %s)" % (ea, eb)
            raise Unsupported("binary " + op)
        if k == "UnaryExprOrTypeTraitExpr" and n.get("name") == "sizeof":
            tinfo = (n.get("argType") or (n["inner"][0].get("type") if n.get("inner") else {}) or {})
            t = tinfo.get("desugaredQualType") or tinfo.get("qualType", "")
            m = re.search(r"\[(\d+)\]$", t.strip())
            cnt = int(m.group(1)) if m else 1
            el = t[:m.start()].strip() if m else t.strip()
            if el.endswith("*"):
                return lit(8 * cnt)
            if el.replace("const ", "") in WIDTH:
                return lit(WIDTH[el.replace("const ", "")][0] // 8 * cnt)
            if el.replace("const ", "") in ("uint8_t", "int8_t"):
                return lit(cnt)
            if el.replace("const ", "") in ("uint_fast16_t", "gf_elem"):
                return "(Z.of_N sizeof_idx)" if cnt == 16 else "(Z.of_N sizeof_idx / 16 * %d)" % cnt
            raise Unsupported("sizeof " + t)
        if k == "ConditionalOperator":
            c, a, b = n["inner"]
            cc = self.C(c)
            if cc == "true":
                return self.E(a)
            if cc == "false":
                return self.E(b)
            return "(if %s then %s else %s)" % (cc, self.E(a), self.E(b))
        if k == "ArraySubscriptExpr":
            arr, idx = n["inner"]
            name = self.lval_name(arr)
            ie = self.E(idx)
            iv = cval(ie)
            if name == "languages":
                return ie            # a registered language is denoted by its position in the registry
            if name in self.ptrs:
                if iv is None:
                    raise Unsupported("pointer %s indexed by data" % name)
                return self.elem_read(self.ptrs[name][0], self.ptrs[name][1] + iv)
            pos = "%d%%nat" % iv if iv is not None and iv >= 0 else "(Z.to_nat %s)" % ie
            if name in self.char_ptrs:
                return "(rdc sgn (skipn %s %s))" % (pos, name)
            self.note_len(name, arr)
            if iv is not None and iv >= 0 and not (self.fuelled and not self.elems.get(name)):
                # scalar replacement: an element written at a constant index lives in its own variable
                el = "%s_%d" % (name, iv)
                if el in self.consts:
                    return lit(self.consts[el])
                if iv in self.elems.get(name, ()):
                    return el
                return "(@nth Z %s %s 0)" % (pos, name)
            if self.elems.get(name):
                raise Unsupported("array %s is indexed by data after constant-index writes" % name)
            return "(@nth Z %s %s 0)" % (pos, name)
        if k == "CallExpr":
            f = self.lval_name(n["inner"][0])
            if f == "memcmp":
                # only its being zero or not is modelled: 0 when the bytes agree, 1 otherwise
                cnt = cval(self.E(n["inner"][3]))
                if cnt is None:
                    raise Unsupported("memcmp of a data-dependent size")
                ab, ao = self.pointee(n["inner"][1])
                bb, bo = self.pointee(n["inner"][2])
                eqs = []
                for i in range(cnt):
                    x, y = self.elem_read(ab, ao + i), self.elem_read(bb, bo + i)
                    vx, vy = cval(x), cval(y)
                    if vx is not None and vy is not None:
                        if vx != vy:
                            return "1"
                        continue
                    eqs.append("(%s =? %s)" % (x, y))
                if not eqs:
                    return "0"
                return "(if %s then 0 else 1)" % " && ".join(eqs)
            if f in EXTERNS:
                gname, sel, gty = EXTERNS[f]
                if gname is None:
                    return "0"
                if (gname, gty) not in self.exts_used:
                    self.exts_used.append((gname, gty))
                args = []
                for j in sel:
                    a = n["inner"][1 + j]
                    cp = self.char_ptr_expr(a)
                    args.append(cp if cp is not None else self.E(a))
                return "(%s %s)" % (gname, " ".join(args))
            if f not in self.known:
                raise Unsupported("call of " + f)
            args = [self.E(a) for a in n["inner"][1:]]
            extra = [g for g in self.known[f]]
            return "(%s %s)" % (f, " ".join(extra + args))
        raise Unsupported("expression " + k)

    def C(self, n):
        """as a Gallina bool; the strings "true"/"false" when it folds"""
        k = n["kind"]
        if k == "ParenExpr":
            return self.C(n["inner"][0])
        if k == "ImplicitCastExpr" and n.get("castKind") in ("IntegralToBoolean", "NoOp"):
            return self.C(n["inner"][0])
        if k == "BinaryOperator":
            op = n["opcode"]
            a, b = n["inner"]
            if op in ("&&", "||"):
                ca, cb = self.C(a), self.C(b)
                if op == "&&":
                    if ca == "false" or cb == "false":
                        return "false"
                    if ca == "true":
                        return cb
                    if cb == "true":
                        return ca
                    return "(%s && %s)" % (ca, cb)
                if ca == "true" or cb == "true":
                    return "true"
                if ca == "false":
                    return cb
                if cb == "false":
                    return ca
                return "(%s || %s)" % (ca, cb)
            m = {"<": "%s <? %s", ">": "%s >? %s", "<=": "%s <=? %s", ">=": "%s >=? %s", "==": "%s =? %s"}
            if op in m or op == "!=":
                ea, eb = self.E(a), self.E(b)
                va, vb = cval(ea), cval(eb)
                if va is not None and vb is not None:
                    r = {"<": va < vb, ">": va > vb, "<=": va <= vb, ">=": va >= vb, "==": va == vb, "!=": va != vb}[op]
                    return "true" if r else "false"
                if op == "!=":
                    return "(negb (%s =? %s))" % (ea, eb)
                return "(" + m[op] % (ea, eb) + ")"
        if k == "UnaryOperator" and n["opcode"] == "!":
            c = self.C(n["inner"][0])
            return {"true": "false", "false": "true"}.get(c, "(negb %s)" % c)
        e = self.E(n)
        v = cval(e)
        if v is not None:
            return "true" if v != 0 else "false"
        return "(negb (%s =? 0))" % e

    # ---------------------------------------------------------------- statements
    def assigned(self, n, acc):
        """names assigned anywhere inside statement n"""
        k = n.get("kind")
        if k in ("BinaryOperator", "CompoundAssignOperator") and n.get("opcode", "").endswith("=") and \
                n["opcode"] not in ("==", "!=", "<=", ">="):
            acc.add(self.lval_base(n["inner"][0]))
        if k == "UnaryOperator" and n["opcode"] in ("++", "--"):
            acc.add(self.lval_base(n["inner"][0]))
        if k == "CallExpr":
            try:
                if self.lval_name(n["inner"][0]) == "memset":
                    acc.add(self.lval_name(n["inner"][1]))
            except Unsupported:
                pass
            try:
                fname_ = self.lval_name(n["inner"][0])
            except Unsupported:
                fname_ = None
            if fname_ == "memcpy":
                try:
                    acc.add(self.pointee(n["inner"][1])[0])
                except Unsupported:
                    acc.add("@unknown")
            if fname_ in INLINE or fname_ in globals().get("API_INLINE", {}):
                # the writes an inlined body makes through its pointer parameters
                for a in n["inner"][1:]:
                    if ctype(a).endswith("*"):
                        try:
                            acc.add(self.pointee(a)[0])
                        except Unsupported:
                            acc.add("@unknown")
            try:
                d = self.dep_call(n)
                if d is not None:
                    acc.add(d[2])
            except Unsupported:
                pass
        for c in n.get("inner", []):
            if isinstance(c, dict):
                self.assigned(c, acc)
        return acc

    def local_ids(self):
        if getattr(self, "_local_ids", None) is None:
            ids = set()

            def walk(x):
                if x.get("kind") in ("VarDecl", "ParmVarDecl") and "id" in x:
                    ids.add(x["id"])
                for c in x.get("inner", []):
                    if isinstance(c, dict):
                        walk(c)
            walk(self.node)
            self._local_ids = ids
        return self._local_ids

    def add_local_ids(self, node):
        ids = self.local_ids()

        def walk(x):
            if x.get("kind") in ("VarDecl", "ParmVarDecl") and "id" in x:
                ids.add(x["id"])
            for c in x.get("inner", []):
                if isinstance(c, dict):
                    walk(c)
        walk(node)

    def check_global_write(self, lhs):
        """a store whose target is an object declared outside the function must be one of the results the
        function is translated with; otherwise the effect would be dropped silently"""
        x = lhs
        while x.get("kind") in ("ParenExpr", "ImplicitCastExpr", "CStyleCastExpr", "MemberExpr", "ArraySubscriptExpr"):
            if x.get("kind") == "MemberExpr" and x.get("isArrow"):
                return                      # through a pointer: the pointee is accounted for by the caller's naming
            x = x["inner"][0]
        if x.get("kind") == "UnaryOperator" and x.get("opcode") == "*":
            return
        if x.get("kind") != "DeclRefExpr":
            return
        rd = x.get("referencedDecl", {})
        if rd.get("kind") != "VarDecl" or rd.get("id") in self.local_ids():
            return
        nm = rd.get("name")
        if not any(o == nm or o.startswith(nm + "_") for o in getattr(self, "outs", [])):
            raise Unsupported("the function writes the global %s, which is not among its results" % nm)

    def lval_base(self, n):
        k = n["kind"]
        if k == "ParenExpr":
            return self.lval_base(n["inner"][0])
        if k == "UnaryOperator" and n.get("opcode") == "*":
            inner = n["inner"][0]
            while inner.get("kind") in ("ImplicitCastExpr", "ParenExpr"):
                inner = inner["inner"][0]
            if inner.get("kind") == "DeclRefExpr":
                nm = inner["referencedDecl"]["name"]
                if nm in self.ptrs:
                    return "%s_%d" % self.ptrs[nm]
                return nm + "_0"
            raise Unsupported("store through a computed pointer")
        if k == "ArraySubscriptExpr":
            return self.lval_name(n["inner"][0])
        return self.lval_name(n)

    def declared(self, n, acc):
        if n.get("kind") == "VarDecl":
            acc.add(n["name"])
        for c in n.get("inner", []):
            if isinstance(c, dict):
                self.declared(c, acc)
        return acc

    def target(self, n):
        """(variable name, index expression or None)"""
        k = n["kind"]
        if k == "ParenExpr":
            return self.target(n["inner"][0])
        if k == "UnaryOperator" and n["opcode"] == "*":
            base, off = self.pointee(n["inner"][0])
            self.elems.setdefault(base, set()).add(off)
            return "%s_%d" % (base, off), None
        if k == "ArraySubscriptExpr":
            arr, idx = n["inner"]
            name = self.lval_name(arr)
            ie = self.E(idx)
            iv = cval(ie)
            if name in self.ptrs:
                if iv is None:
                    raise Unsupported("pointer %s indexed by data" % name)
                base, off = self.ptrs[name][0], self.ptrs[name][1] + iv
                self.elems.setdefault(base, set()).add(off)
                return "%s_%d" % (base, off), None
            self.note_len(name, arr)
            if iv is not None and iv >= 0 and name not in self.char_ptrs and not self.fuelled:
                self.elems.setdefault(name, set()).add(iv)
                return "%s_%d" % (name, iv), None
            if self.fuelled and not self.elems.get(name) and name not in self.char_ptrs:
                return name, ie      # inside a fuelled loop arrays stay lists (the state carries them whole)
            if self.elems.get(name):
                raise Unsupported("array %s is indexed by data after constant-index writes" % name)
            return name, ie
        return self.lval_name(n), None

    def char_ptr_expr(self, a):
        """a `char*`-valued expression as a Gallina list suffix, or None if it is not one"""
        k = a["kind"]
        if k in ("ParenExpr", "ImplicitCastExpr", "CStyleCastExpr"):
            return self.char_ptr_expr(a["inner"][0])
        if k == "DeclRefExpr":
            nm = a["referencedDecl"]["name"]
            return nm if nm in self.char_ptrs else None
        if k == "ArraySubscriptExpr":
            try:
                nm = self.lval_name(a["inner"][0])
            except Unsupported:
                return None
            if nm in self.str_arrays:
                ie = self.E(a["inner"][1])
                v = cval(ie)
                return "(nth %s %s [])" % ("%d%%nat" % v if v is not None and v >= 0 else "(Z.to_nat %s)" % ie, nm)
            return None
        if k == "BinaryOperator" and a["opcode"] == "+":
            base = self.char_ptr_expr(a["inner"][0])
            if base is None:
                return None
            off = self.E(a["inner"][1])
            v = cval(off)
            return "(skipn %s %s)" % ("%d%%nat" % v if v is not None and v >= 0 else "(Z.to_nat %s)" % off, base)
        return None

    def pointee(self, a):
        """(base array, constant offset) designated by a pointer-valued expression; `p++` advances p"""
        k = a["kind"]
        if k in ("ParenExpr", "ImplicitCastExpr", "CStyleCastExpr"):
            return self.pointee(a["inner"][0])
        if k == "UnaryOperator" and a["opcode"] in ("++", "--"):
            name = self.lval_name(a["inner"][0])
            if name not in self.ptrs:
                raise Unsupported("++ on non-pointer in address")
            base, off = self.ptrs[name]
            d = 1 if a["opcode"] == "++" else -1
            self.ptrs[name] = (base, off + d)
            return (base, off) if a.get("isPostfix") else (base, off + d)
        if k == "BinaryOperator" and a["opcode"] in ("+", "-"):
            base, off = self.pointee(a["inner"][0])
            v = cval(self.E(a["inner"][1]))
            if v is None:
                raise Unsupported("pointer arithmetic with data")
            return base, off + (v if a["opcode"] == "+" else -v)
        if k == "StringLiteral":
            return ("@str:" + a["value"], 0)
        name = self.lval_name(a)
        if name in self.ptrs:
            return self.ptrs[name]
        return (name, 0)          # an array object (parameter, member) decayed to a pointer

    def elem_read(self, base, off):
        if base.startswith("@str:"):
            lit_s = json.loads(base[5:]) if base[5:].startswith('"') else base[5:]
            bs = lit_s.encode("latin-1") + b"\0"
            return lit(bs[off])
        el = "%s_%d" % (base, off)
        if el in self.consts:
            return lit(self.consts[el])
        if off in self.elems.get(base, ()):
            return el
        return "(@nth Z %d%%nat %s 0)" % (off, base)

    def note_len(self, name, arr):
        """remember the declared length of an array object from the type of the expression naming it"""
        import re
        node = arr
        while node.get("kind") in ("ImplicitCastExpr", "ParenExpr"):
            node = node["inner"][0]
        m = re.search(r"\[(\d+)\]", node.get("type", {}).get("qualType", ""))
        if m:
            self.arr_len[name] = int(m.group(1))

    def array_value(self, name):
        """the whole array as a list, from the original list and the elements written since"""
        if not self.elems.get(name):
            return name
        if name not in self.arr_len:
            raise Unsupported("length of array %s unknown" % name)
        out = []
        for i in range(self.arr_len[name]):
            el = "%s_%d" % (name, i)
            if el in self.consts:
                out.append(lit(self.consts[el]))
            elif i in self.elems[name]:
                out.append(el)
            else:
                out.append("(@nth Z %d%%nat %s 0)" % (i, name))
        return "[" + "; ".join(out) + "]"

    def pos(self, idx):
        v = cval(idx)
        return "%d%%nat" % v if v is not None and v >= 0 else "(Z.to_nat %s)" % idx

    def assign(self, tgt, rhs):
        name, idx = tgt
        if idx is None:
            v = cval(rhs)
            if v is not None:
                self.consts[name] = v      # every later use is replaced by the value: no binding needed
                return ""
            self.consts.pop(name, None)
            return "let %s : Z := %s in\n" % (name, rhs)
        return "let %s : list Z := @upd Z %s %s %s in\n" % (name, name, self.pos(idx), rhs)

    def read(self, tgt):
        name, idx = tgt
        if idx is None:
            if name in self.consts:
                return lit(self.consts[name])
            m = re.match(r"(.*)_(\d+)$", name)
            if m and m.group(1) in self.arr_len and int(m.group(2)) not in self.elems.get(m.group(1), ()):
                return "(@nth Z %s%%nat %s 0)" % (m.group(2), m.group(1))
            return name
        return "(@nth Z %s %s 0)" % (self.pos(idx), name)

    def tup(self, names):
        names = list(names)
        if not names:
            return "tt"
        return names[0] if len(names) == 1 else "(" + ", ".join(names) + ")"

    def pat(self, names):
        names = list(names)
        if not names:
            return "_"
        return names[0] if len(names) == 1 else "'(" + ", ".join(names) + ")"

    def vals(self, names):
        """tuple of the current values (constants written out)"""
        return self.tup([lit(self.consts[x]) if x in self.consts else x for x in names])

    def S(self, stmts, k):
        """statement list; k() gives the Gallina text that follows, in the environment reached"""
        if not stmts:
            return k()
        n, rest = stmts[0], stmts[1:]
        kind = n["kind"]
        if kind == "CompoundStmt":
            return self.S(list(n.get("inner", [])) + rest, k)
        if kind == "NullStmt":
            return self.S(rest, k)
        if kind == "DeclStmt":
            out = ""
            for v in n["inner"]:
                if v["kind"] != "VarDecl":
                    raise Unsupported("decl " + v["kind"])
                ty = ctype(v)
                init = [c for c in v.get("inner", []) if c.get("kind") not in ("FullComment",)]
                if "polyseed_cmp" in ty or "polyseed_cmp" in v.get("type", {}).get("qualType", ""):
                    continue            # the comparer is a function of the language: not carried
                if "polyseed_lang" in v.get("type", {}).get("qualType", "") and ty.endswith("*"):
                    out += self.assign((v["name"], None), self.E(init[0]))
                    continue
                m_arr = re.search(r"\[(\d+)\]$", v.get("type", {}).get("qualType", "").strip())
                if m_arr and not init:
                    self.arr_len[v["name"]] = int(m_arr.group(1))
                    out += "let %s : list Z := repeat 0 %d in\n" % (v["name"], int(m_arr.group(1)))
                    continue
                if ty.endswith("*") and not ty.endswith("char *"):
                    self.ptrs[v["name"]] = self.pointee(init[0])
                    continue
                if ty.endswith("char *"):
                    self.char_ptrs.add(v["name"])
                    cp = self.char_ptr_expr(init[0]) if init else None
                    if cp is None:
                        raise Unsupported("char pointer initialised from something else")
                    out += "let %s : list Z := %s in\n" % (v["name"], cp)
                    continue
                call = self.as_inline_call(init[0]) if init else None
                if call is not None:
                    name = v["name"]
                    return out + self.inline(call, lambda val: self.assign((name, None), wrap(val, ty)) + self.S(rest, k))
                rhs = self.E(init[0]) if init else "0"
                out += self.assign((v["name"], None), wrap(rhs, ty))
            return out + self.S(rest, k)
        if kind == "ReturnStmt":
            dep = self.dep_call(n["inner"][0]) if n.get("inner") else None
            if dep is not None:
                fname, src, dst = dep
                self.deps_used.add(fname)
                return "let '(%s, depret) := dep_%s %s in\n" % (dst, fname, src) + self.ret("depret")
            e = self.E(n["inner"][0]) if n.get("inner") else None
            return self.ret(e)
        if kind in ("BinaryOperator", "CompoundAssignOperator") and n["opcode"].endswith("=") and \
                n["opcode"] not in ("==", "!=", "<=", ">="):
            lhs0 = n["inner"][0]
            if lhs0.get("kind") == "DeclRefExpr" and self.lval_name(lhs0) in self.ptrs:
                pn = self.lval_name(lhs0)
                v = cval(self.E(n["inner"][1]))
                if v is None or n["opcode"] not in ("+=", "-="):
                    raise Unsupported("pointer assignment")
                self.ptrs[pn] = (self.ptrs[pn][0], self.ptrs[pn][1] + (v if n["opcode"] == "+=" else -v))
                return self.S(rest, k)
            self.check_global_write(n["inner"][0])
            rhs = self.E(n["inner"][1])        # right operand first: `*p++ = *q++` is not in the subset
            cur0 = None
            if n["opcode"] != "=" and strip(n["inner"][0]).get("kind") == "ArraySubscriptExpr":
                cur0 = self.E(n["inner"][0])   # the old value, before the element counts as written
            tgt = self.target(n["inner"][0])
            ty = ctype(n["inner"][0])
            if n["opcode"] != "=":
                op = n["opcode"][:-1]
                cur = cur0 if cur0 is not None and tgt[1] is None else self.read(tgt)
                crt = n.get("computeResultType", {})
                cty = (crt.get("desugaredQualType") or crt.get("qualType") or ty).replace("const ", "")
                fake = {"+": "(%s + %s)", "-": "(%s - %s)", "*": "(%s * %s)", "&": "(Z.land %s %s)", "|": "(Z.lor %s %s)",
                        "^": "(Z.lxor %s %s)", "<<": "(Z.shiftl %s %s)", ">>": "(Z.shiftr %s %s)"}
                if op not in fake:
                    raise Unsupported("compound " + op)
                va, vb = cval(cur), cval(rhs)
                if va is not None and vb is not None and (op not in ("<<", ">>") or 0 <= vb < 64):
                    r = {"+": va + vb, "-": va - vb, "*": va * vb, "&": va & vb, "|": va | vb, "^": va ^ vb,
                         "<<": va << vb if op == "<<" else 0, ">>": va >> vb if op == ">>" else 0}[op]
                    val = lit(r)
                else:
                    val = fake[op] % (cur, rhs)
                if op in ("+", "-", "*", "<<"):
                    val = wrap(val, cty)
                rhs = val
            if tgt[0] in self.char_ptrs and tgt[1] is None:
                raise Unsupported("assignment to char pointer")
            return self.assign(tgt, wrap(rhs, ty)) + self.S(rest, k)
        if kind == "UnaryOperator" and n["opcode"] in ("++", "--"):
            self.check_global_write(n["inner"][0])
            if n["inner"][0].get("kind") == "DeclRefExpr" and self.lval_name(n["inner"][0]) in self.ptrs:
                pn = self.lval_name(n["inner"][0])
                self.ptrs[pn] = (self.ptrs[pn][0], self.ptrs[pn][1] + (1 if n["opcode"] == "++" else -1))
                return self.S(rest, k)
            tgt = self.target(n["inner"][0])
            ty = ctype(n["inner"][0])
            if tgt[0] in self.char_ptrs:
                if n["opcode"] == "--":
                    raise Unsupported("-- on char pointer")
                return "let %s : list Z := tl %s in\n" % (tgt[0], tgt[0]) + self.S(rest, k)
            cur = self.read(tgt)
            v = cval(cur)
            d = 1 if n["opcode"] == "++" else -1
            val = lit(v + d) if v is not None else "(%s %s 1)" % (cur, "+" if d == 1 else "-")
            return self.assign(tgt, wrap(val, ty)) + self.S(rest, k)
        if kind == "IfStmt":
            parts = n["inner"]
            cond, then = parts[0], parts[1]
            els = parts[2] if len(parts) > 2 else None
            c = self.C(cond)
            if c == "true":
                return self.S([then] + rest, k)
            if c == "false":
                return self.S(([els] if els is not None else []) + rest, k)
            if self.has_return(then) or (els is not None and self.has_return(els)) or \
                    self.has_break(then) or (els is not None and self.has_break(els)) or \
                    self.has_continue(then) or (els is not None and self.has_continue(els)):
                saved = dict(self.consts)
                t = self.S([then] + rest, k)
                self.consts = dict(saved)
                e = self.S(([els] if els is not None else []) + rest, k)
                self.consts = saved
                return "if %s then (%s) else (\n%s)" % (c, t, e)
            m = set()
            self.assigned(then, m)
            if els is not None:
                self.assigned(els, m)
            m -= self.declared(then, set()) | (self.declared(els, set()) if els is not None else set())
            if "@unknown" in m:
                raise Unsupported("a conditional writes through a pointer the translator cannot name")
            m = sorted(m)
            saved = dict(self.consts)
            saved_elems = {a: set(b) for a, b in self.elems.items()}
            saved_ptrs = dict(self.ptrs)
            whole = set()      # arrays whose elements live in scalars at the end of a branch: joined as whole lists

            def branch_vals():
                out = []
                for x in m:
                    if self.elems.get(x):
                        whole.add(x)
                        out.append(self.array_value(x))
                    else:
                        out.append(lit(self.consts[x]) if x in self.consts else x)
                return self.tup(out)
            t = self.S([then], branch_vals)
            moved = self.ptrs != saved_ptrs
            self.ptrs = dict(saved_ptrs)
            self.consts = dict(saved)
            self.elems = {a: set(b) for a, b in saved_elems.items()}
            e = self.S([els], branch_vals) if els is not None else branch_vals()
            moved = moved or self.ptrs != saved_ptrs
            self.ptrs = dict(saved_ptrs)
            if moved:
                raise Unsupported("a pointer is moved inside a conditional")
            self.consts = saved
            self.elems = saved_elems
            if whole:
                # a branch wrote an element that had been replaced by a scalar: redo both branches with the same
                # shape (whole lists), then forget the scalars - later reads go to the joined list
                self.consts = dict(saved)
                t = self.S([then], branch_vals_whole(self, m, whole))
                self.consts = dict(saved)
                self.elems = {a: set(b) for a, b in saved_elems.items()}
                e = self.S([els], branch_vals_whole(self, m, whole)) if els is not None else branch_vals_whole(self, m, whole)()
                self.consts = saved
                self.elems = saved_elems
                for x in whole:
                    for i in list(self.elems.get(x, ())):
                        self.consts.pop("%s_%d" % (x, i), None)
                    if x in self.arr_len:
                        for i in range(self.arr_len[x]):
                            self.consts.pop("%s_%d" % (x, i), None)
                    self.elems[x] = set()
            for x in m:
                self.consts.pop(x, None)
            return "let %s := (if %s then (%s) else (%s)) in\n" % (self.pat(m), c, t, e) + self.S(rest, k)
        if kind == "BreakStmt":
            if not self.loop_exit:
                raise Unsupported("break outside a translated loop")
            return self.loop_exit[-1](True)
        if kind == "ContinueStmt":
            if not self.loop_cont:
                raise Unsupported("continue outside a translated loop")
            return self.loop_cont[-1]()
        if kind in ("ForStmt", "WhileStmt"):
            if kind == "ForStmt":
                init, _cv, cond, inc, body = n["inner"]
            else:
                init, cond, inc, body = None, n["inner"][0], None, n["inner"][1]
            loopbody = [body] + ([inc] if inc is not None and inc.get("kind") else [])
            if self.has_break(body) or self.has_return(body) or self.has_continue(body):
                return (self.S([init], lambda: self.break_loop(cond, body, inc, rest, k))
                        if init is not None and init.get("kind") else self.break_loop(cond, body, inc, rest, k))

            def iterate(count):
                c = self.C(cond)
                if c == "false":
                    return self.S(rest, k)
                if c == "true" and count < UNROLL:
                    return self.S(loopbody, lambda: iterate(count + 1))
                # the condition depends on data (or the unrolling limit is reached): fuelled loop from here
                self.uses_option = True
                m = set()
                for s in loopbody:
                    self.assigned(s, m)
                m -= self.declared(body, set())
                m = sorted(m)
                pre_ = ""
                for x in m:
                    if self.elems.get(x):
                        pre_ += "let %s : list Z := %s in\n" % (x, self.array_value(x))
                        for i in list(self.elems[x]):
                            self.consts.pop("%s_%d" % (x, i), None)
                        self.elems[x] = set()
                if pre_:
                    return pre_ + iterate(count)
                init_vals = self.vals(m)
                for x in m:
                    self.consts.pop(x, None)
                saved = dict(self.consts)
                cc = self.C(cond)
                b = self.S(loopbody, lambda: "Some " + self.vals(m))
                self.consts = saved
                for x in m:
                    self.consts.pop(x, None)
                self.uses_fuel = True
                return ("match whileF fuel (fun st => let %s := st in %s) (fun st => let %s := st in\n%s) %s with\n"
                        "| None => None\n| Some st => let %s := st in\n%s\nend") % (
                    self.pat(m), cc, self.pat(m), b, init_vals, self.pat(m), self.S(rest, k))
            if init is not None and init.get("kind"):
                return self.S([init], lambda: iterate(0))
            return iterate(0)
        if kind == "CallExpr":
            callee0 = n["inner"][0]
            while callee0.get("kind") in ("ImplicitCastExpr", "ParenExpr"):
                callee0 = callee0["inner"][0]
            if callee0.get("kind") == "MemberExpr" and callee0.get("name") == "memzero":
                return self.S(rest, k)      # wiping is an effect (traces), not part of the value computed
            f = self.lval_name(n["inner"][0])
            if f in ("assert", "__assert_fail"):
                return self.S(rest, k)
            if f in ("memset", "memcpy"):
                self.check_global_write(strip(n["inner"][1]))
            if f == "memset" and self.const_of(n["inner"][2]) == 0 and n["inner"][3].get("kind") == "UnaryExprOrTypeTraitExpr":
                # memset(obj, 0, sizeof(obj)): every cell of the list becomes 0
                name = self.lval_name(n["inner"][1])
                self.note_len(name, n["inner"][1])
                if name in self.arr_len:
                    for i in range(self.arr_len[name]):
                        self.elems.setdefault(name, set()).add(i)
                        self.consts["%s_%d" % (name, i)] = 0
                    return self.S(rest, k)
                return "let %s : list Z := map (fun _ : Z => 0) %s in\n" % (name, name) + self.S(rest, k)
            if f == "memcpy":
                cnt = cval(self.E(n["inner"][3]))
                if cnt is None:
                    raise Unsupported("memcpy of a data-dependent size")
                db, do = self.pointee(n["inner"][1])
                sb, so = self.pointee(n["inner"][2])
                out = ""
                vals = [self.elem_read(sb, so + i) for i in range(cnt)]
                for i in range(cnt):
                    self.elems.setdefault(db, set()).add(do + i)
                    out += self.assign(("%s_%d" % (db, do + i), None), vals[i])
                return out + self.S(rest, k)
            call = self.as_inline_call(n)
            if call is not None:
                return self.inline(call, lambda val: self.S(rest, k))
            raise Unsupported("call statement " + f)
        if kind == "CallExpr_deps_memzero":
            return self.S(rest, k)
        if kind == "ParenExpr" and n["inner"][0].get("kind") == "ConditionalOperator":
            n = n["inner"][0]
            kind = "ConditionalOperator"
        if kind == "ConditionalOperator" and "__assert_fail" in json.dumps(n["inner"][2]):
            # assert(cond): decided at translation time when cond folds; otherwise left to the proofs
            c = self.C(n["inner"][0])
            if c == "false":
                raise Unsupported("an assert of the function is false on the path taken")
            self.asserts.append("proved" if c == "true" else "not decided")
            return self.S(rest, k)
        if kind == "ParenExpr" or (kind == "CStyleCastExpr" and ctype(n) == "void"):
            return self.S(rest, k)   # ((void)0) left by assert under NDEBUG
        raise Unsupported("statement " + kind)

    def as_inline_call(self, n):
        while n.get("kind") in ("ImplicitCastExpr", "ParenExpr"):
            n = n["inner"][0]
        if n.get("kind") == "CallExpr":
            try:
                f = self.lval_name(n["inner"][0])
            except Unsupported:
                return None
            if f in INLINE:
                return n
        return None

    def inline(self, call, kret):
        """the body of a small static function, in place: pointer parameters are bound to what they point to"""
        f = self.lval_name(call["inner"][0])
        node = ast_of(self.repo, INLINE[f], f)
        self.add_local_ids(node)
        params = [p for p in node["inner"] if p.get("kind") == "ParmVarDecl"]
        args = call["inner"][1:]
        out = ""
        saved_ptrs = dict(self.ptrs)
        for p, a in zip(params, args):
            ty = ctype(p)
            if ty.endswith("*"):
                self.ptrs[p["name"]] = self.pointee(a)
            else:
                out += self.assign((p["name"], None), wrap(self.E(a), ty))
        body = [c for c in node["inner"] if c.get("kind") == "CompoundStmt"][0]
        saved_ret, saved_outs = self.ret_hook, self.outs

        def done(val):
            self.ret_hook = saved_ret
            for p in params:
                if ctype(p).endswith("*"):
                    self.ptrs.pop(p["name"], None)
            for nm, v in saved_ptrs.items():
                self.ptrs.setdefault(nm, v)
            return kret(val)
        self.ret_hook = done
        text = self.S([body], lambda: done(None))
        return out + text

    def dep_call(self, n):
        """polyseed_deps.<transform>(src, dst): (name, Gallina source string, destination buffer name)"""
        while n.get("kind") in ("ImplicitCastExpr", "ParenExpr"):
            n = n["inner"][0]
        if n.get("kind") != "CallExpr":
            return None
        callee = n["inner"][0]
        while callee.get("kind") in ("ImplicitCastExpr", "ParenExpr"):
            callee = callee["inner"][0]
        if callee.get("kind") != "MemberExpr":
            return None
        try:
            base = self.lval_name(callee["inner"][0])
        except Unsupported:
            return None
        if base != "polyseed_deps" or callee["name"] not in ("u8_nfkd", "u8_nfc"):
            return None
        src = self.char_ptr_expr(n["inner"][1])
        dst = self.lval_name(n["inner"][2])
        if src is None:
            raise Unsupported("source of the transform is not a string")
        return callee["name"], src, dst

    def has_continue(self, n):
        if n.get("kind") == "ContinueStmt":
            return True
        if n.get("kind") in ("ForStmt", "WhileStmt", "DoStmt"):
            return False
        return any(isinstance(c, dict) and self.has_continue(c) for c in n.get("inner", []))

    def has_break(self, n):
        """a break that belongs to this loop (not to a nested one)"""
        if n.get("kind") == "BreakStmt":
            return True
        if n.get("kind") in ("ForStmt", "WhileStmt", "DoStmt", "SwitchStmt"):
            return False
        return any(isinstance(c, dict) and self.has_break(c) for c in n.get("inner", []))

    def break_loop(self, cond, body, inc, rest, k):
        """a loop left through `break`: fuelled, the state carries a flag"""
        self.uses_option = True
        self.uses_fuel = True
        m = set()
        self.assigned(body, m)
        if inc is not None and inc.get("kind"):
            self.assigned(inc, m)
        m -= self.declared(body, set())
        m = sorted(m)
        pre = ""
        for x in m:
            if self.elems.get(x):
                pre += "let %s : list Z := %s in\n" % (x, self.array_value(x))
                for i in list(self.elems[x]):
                    self.consts.pop("%s_%d" % (x, i), None)
                self.elems[x] = set()
        if pre:
            return pre + self.break_loop(cond, body, inc, rest, k)
        self.fuelled += 1
        init_vals = self.vals(m)
        for x in m:
            self.consts.pop(x, None)
        saved = dict(self.consts)
        cc = self.C(cond) if cond is not None and cond.get("kind") else "true"
        with_ret = self.has_return(body)
        flags = ["brk"] + (["rflag", "rval"] if with_ret else [])
        state = flags + m

        def exit_(broke, retval=None):
            fl = ["true" if (broke or retval is not None) else "false"]
            if with_ret:
                fl += ["true", retval] if retval is not None else ["false", "0"]
            return "Some " + self.tup(fl + [lit(self.consts[x]) if x in self.consts else x for x in m])
        self.loop_exit.append(exit_)
        saved_hook = self.ret_hook
        if with_ret:
            self.ret_hook = lambda e: exit_(True, e if e is not None else "0")
        inc_stmts = [inc] if inc is not None and inc.get("kind") else []
        self.loop_cont.append(lambda: self.S(inc_stmts, lambda: exit_(False)))
        b = self.S([body] + inc_stmts, lambda: exit_(False))
        self.loop_cont.pop()
        self.ret_hook = saved_hook
        self.loop_exit.pop()
        self.fuelled -= 1
        self.consts = saved
        for x in m:
            self.consts.pop(x, None)
        cond_txt = "negb brk" if cc == "true" else "(negb brk && %s)" % cc
        init_list = (init_vals.strip("()").split(", ") if len(m) > 1 else [init_vals]) if m else []
        init_state = self.tup(["false"] + (["false", "0"] if with_ret else []) + init_list)
        after = self.S(rest, k)
        if with_ret:
            after = "if rflag then (%s) else (\n%s)" % (self.ret("rval"), after)
        return ("match whileF fuel (fun st => let %s := st in %s) (fun st => let %s := st in\n%s) %s with\n"
                "| None => None\n| Some st => let %s := st in\n%s\nend") % (
            self.pat(state), cond_txt, self.pat(state), b, init_state, self.pat(state), after)

    def const_of(self, n):
        try:
            return cval(self.E(n))
        except Unsupported:
            return None

    def has_return(self, n):
        if n.get("kind") == "ReturnStmt":
            return True
        return any(isinstance(c, dict) and self.has_return(c) for c in n.get("inner", []))

    def ret(self, e):
        if self.ret_hook is not None:
            return self.ret_hook(e)
        outs = [lit(self.consts[o]) if o in self.consts else self.array_value(o) for o in self.outs]
        if e is not None:
            outs = outs + [e]
        val = self.tup(outs)
        return ("Some " + val) if self.uses_option_final else val

    def translate(self, params, outs, rty):
        """params: Gallina parameter names in order; outs: variables returned besides the C return value"""
        self.outs = outs
        body = [c for c in self.node["inner"] if c.get("kind") == "CompoundStmt"][0]
        for p in self.node["inner"]:
            if p.get("kind") == "ParmVarDecl" and ctype(p).endswith("char *"):
                self.char_ptrs.add(p["name"])
            if p.get("kind") == "ParmVarDecl" and re.match(r"(const )?char \*(const )?\s*\*", p.get("type", {}).get("qualType", "")):
                self.str_arrays.add(p["name"])
        # first pass to learn whether a loop needed the option monad
        self.uses_option_final = False
        self.uses_option = False
        self.consts = {}
        self.elems = {}
        self.ptrs = {}
        self.arr_len = dict(getattr(self, "arr_len0", {}))
        self.S([body], lambda: self.ret(None))
        self.uses_option_final = self.uses_option
        self.consts = {}
        self.asserts = []
        self.elems = {}
        self.ptrs = {}
        self.arr_len = dict(getattr(self, "arr_len0", {}))
        text = self.S([body], lambda: self.ret(None))
        if self.uses_option_final:
            rty = "option (%s)" % rty
        extra = []
        if self.uses_fuel:
            extra.append(("fuel", "nat"))
        if "(rdc sgn " in text:
            extra.append(("sgn", "bool"))
        for dn in sorted(self.deps_used):
            extra.append(("dep_" + dn, "list Z -> list Z * Z"))
        for (gname, gty) in self.exts_used:
            extra.append((gname, gty))
        self.extra_params = [p[0] for p in extra]
        return "Definition %s %s : %s :=\n%s." % (self.name, " ".join("(%s : %s)" % p for p in extra + params), rty, text)


UNROLL = 512
FUEL = 64
INLINE = {"store16": "storage.c", "load16": "storage.c"}
# functions left outside the translation: (Gallina parameter, which C arguments it takes, its type)
EXTERNS = {"lang_search": ("ext_lang_search", [0, 1], "Z -> list Z -> Z"), "get_comparer": (None, [], None)}
# lengths of array objects passed as decayed pointers (from the typedefs of the public header)
ARRAY_LEN = {"polyseed_data_store": {"storage": 32}, "polyseed_data_load": {"storage": 32},
             "polyseed_phrase_decode": {"idx_out": 16}, "polyseed_phrase_decode_explicit": {"idx_out": 16}}
ENUMS = {}


def load_enums(repo):
    """values of the enumerators of the public header (explicit value, or previous + 1)"""
    for en in ("polyseed_status", "polyseed_coin"):
        cmd = ["clang", "-std=c11", "-fsyntax-only", "-I", repo + "/include", "-Xclang", "-ast-dump=json",
               "-Xclang", "-ast-dump-filter=" + en, repo + "/include/polyseed.h"]
        txt = subprocess.run(cmd, stdout=subprocess.PIPE, stderr=subprocess.DEVNULL, universal_newlines=True).stdout
        dec = json.JSONDecoder()
        i = 0
        while i < len(txt):
            while i < len(txt) and txt[i] in " \n\r\t":
                i += 1
            if i >= len(txt):
                break
            d, i = dec.raw_decode(txt, i)
            if d.get("kind") != "EnumDecl":
                continue
            nxt = 0
            for c in d.get("inner", []):
                if c.get("kind") != "EnumConstantDecl":
                    continue
                v = None
                stack = list(c.get("inner", []))
                while stack:
                    x = stack.pop()
                    if x.get("kind") == "ConstantExpr" and "value" in x:
                        v = int(x["value"])
                        break
                    if x.get("kind") == "IntegerLiteral":
                        v = int(x["value"])
                        break
                    stack += x.get("inner", [])
                if v is None:
                    v = nxt
                ENUMS[c["name"]] = v
                nxt = v + 1


# (source file, C function, Gallina parameters, extra results, globals passed first to callers)
TARGETS = [
    ("gf.c", "gf_elem_mul2", [("polyseed_mul2_table", "list Z"), ("x", "Z")], [], ["polyseed_mul2_table"], "Z"),
    ("gf.c", "gf_poly_eval", [("polyseed_mul2_table", "list Z"), ("poly_coeff", "list Z")], [], ["polyseed_mul2_table"], "Z"),
    ("gf.c", "birthday_encode", [("time", "Z")], [], [], "Z"),
    ("gf.c", "birthday_decode", [("birthday", "Z")], [], [], "Z"),
    ("gf.c", "make_features", [("user_features", "Z")], [], [], "Z"),
    ("gf.c", "get_features", [("features", "Z"), ("mask", "Z")], [], [], "Z"),
    ("gf.c", "is_encrypted", [("features", "Z")], [], [], "Z"),
    ("features.c", "polyseed_features_supported", [("reserved_features", "Z"), ("features", "Z")], [], ["reserved_features"], "Z"),
    ("features.c", "polyseed_enable_features", [("reserved_features", "Z"), ("mask", "Z")], ["reserved_features"], [], "Z * Z"),
    ("gf.c", "polyseed_data_to_poly",
     [("data_birthday", "Z"), ("data_features", "Z"), ("data_secret", "list Z"), ("poly_coeff", "list Z")], ["poly_coeff"], [], "list Z"),
    ("gf.c", "utf8_nfkd_lazy", [("str", "list Z"), ("norm", "list Z")], ["norm"], [], "list Z * Z"),
    ("lang.c", "compare_str", [("key", "list Z"), ("elm", "list Z")], [], [], "Z"),
    ("lang.c", "compare_prefix", [("key", "list Z"), ("elm", "list Z"), ("n", "Z")], [], [], "Z"),
    ("lang.c", "compare_str_noaccent", [("key", "list Z"), ("elm", "list Z")], [], [], "Z"),
    ("lang.c", "compare_prefix_noaccent", [("key", "list Z"), ("elm", "list Z"), ("n", "Z")], [], [], "Z"),
    ("lang.c", "polyseed_phrase_decode",
     [("phrase", "list (list Z)"), ("idx_out", "list Z"), ("lang_out", "Z"), ("lang_out_0", "Z")],
     ["idx_out", "lang_out_0"], [], "list Z * Z * Z"),
    ("lang.c", "polyseed_phrase_decode_explicit",
     [("phrase", "list (list Z)"), ("lang", "Z"), ("idx_out", "list Z")], ["idx_out"], [], "list Z * Z"),
    ("storage.c", "polyseed_data_store",
     [("data_birthday", "Z"), ("data_features", "Z"), ("data_secret", "list Z"), ("data_checksum", "Z"), ("storage", "list Z")],
     ["storage"], [], "list Z"),
    ("storage.c", "polyseed_data_load",
     [("storage", "list Z"), ("data_birthday", "Z"), ("data_features", "Z"), ("data_secret", "list Z"), ("data_checksum", "Z")],
     ["data_birthday", "data_features", "data_secret", "data_checksum"], [], "Z * Z * list Z * Z * Z"),
    ("gf.c", "polyseed_poly_to_data",
     [("poly_coeff", "list Z"), ("data_secret", "list Z")],
     ["data_birthday", "data_features", "data_secret", "data_checksum"], [], "Z * Z * list Z * Z"),
]


# ====================================================================== the API layer (polyseed.c)
# Functions that call the injected dependencies.  On top of the fragment above:
#   * the calls made through `polyseed_deps` are *events* appended to a hidden variable `ev`
#     (allocation with its answer, free, wipes with object and size, clock, random bytes, KDF, NFC);
#     the environment's answers (pointer returned by alloc, clock value, random bytes) are parameters;
#   * `goto label` continues with the statements after the (top-level) label;
#   * a `polyseed_data*` is an integer (0 = NULL) plus one variable per field of the block it points to;
#   * calls of translated functions with pointer arguments: the callee's Gallina parameters are matched
#     to the caller's variables through the C parameter names (`data` <-> `seed`: data_birthday <-> seed_birthday).
SIGS = {}          # C function -> dict(extra, globals, params, outs, option, cparams, void)
STRUCT_SIZE = {"polyseed_data": "sizeof_data", "gf_poly": "sizeof_poly", "struct polyseed_data": "sizeof_data"}
API_INLINE = {"polyseed_free": "polyseed.c", "store32": "polyseed.c"}
FUNC_CODES = {"compare_str_wrap": 0, "compare_prefix_wrap": 1, "compare_str_noaccent_wrap": 2, "compare_prefix_noaccent_wrap": 3,
              "stdlib_time": -1, "malloc": -2, "free": -3}       # the libc defaults of the dependency table
COQ_KEYWORDS = {"match", "with", "end", "fun", "let", "in", "if", "then", "else", "return", "as", "fix", "cofix", "forall",
                "exists", "Type", "Set", "Prop", "at", "using", "where", "for", "struct", "mod"}
DEP_FIELDS = []
OWN_CALLERS = {"polyseed_lang_find_word"}   # elsewhere lang_search stays the external function the leaf layer assumes
API_OWN = set()     # functions the API layer translates itself although the leaf layer treats them as external


def strip(n):
    while n.get("kind") in ("ImplicitCastExpr", "ParenExpr", "CStyleCastExpr"):
        n = n["inner"][0]
    return n


class ApiFn(Fn):
    def __init__(self, *a):
        super().__init__(*a)
        self.hoisted = {}
        self.env_used = []
        self.top = None
        self.top_k = None
        self.struct_ptrs = set()
        self.uses_ev = False
        self.tmpn = 0
        self.rename = {}
        self.bsearch_ptrs = set()
        self.locals = []
        self.new_ids = []
        self.char_arrays = set()
        self.idx_mode = False
        self.idx_ptrs = {}
        self.idx_arrays = {}
        self.idx_spec = {}

    # ------------------------------------------------------------ helpers
    def deps_member(self, n):
        """name of the polyseed_deps entry called by CallExpr n, or None"""
        n = strip(n)
        if n.get("kind") != "CallExpr":
            return None
        callee = strip(n["inner"][0])
        if callee.get("kind") != "MemberExpr":
            return None
        base = strip(callee["inner"][0])
        if base.get("kind") == "DeclRefExpr" and base["referencedDecl"]["name"] == "polyseed_deps":
            return callee["name"]
        return None

    def env(self, name, ty):
        if (name, ty) not in self.env_used:
            self.env_used.append((name, ty))
        return name

    def event(self, e):
        self.uses_ev = True
        return "let ev : list cev := ev ++ [%s] in\n" % e

    def snapshot(self):
        return (dict(self.consts), {a: set(b) for a, b in self.elems.items()}, dict(self.ptrs), dict(self.arr_len))

    def restore(self, s):
        self.consts, self.elems, self.ptrs, self.arr_len = dict(s[0]), {a: set(b) for a, b in s[1].items()}, dict(s[2]), dict(s[3])

    def lval_name(self, n):
        if n["kind"] == "DeclRefExpr":
            nm = n["referencedDecl"]["name"]
            return self.rename.get(nm, nm)
        return super().lval_name(n)

    def C(self, n):
        x = n
        while x.get("kind") == "ParenExpr":
            x = x["inner"][0]
        if x.get("kind") == "BinaryOperator" and x.get("opcode") in ("==", "!="):
            a, b = strip(x["inner"][0]), strip(x["inner"][1])
            for p, q in ((a, b), (b, a)):
                if p.get("kind") == "DeclRefExpr" and self.lval_name(p) in self.bsearch_ptrs and cval(self.E(q)) == 0:
                    t = "(%s =? (-1))" % self.E(p)
                    return t if x["opcode"] == "==" else "(negb %s)" % t
        return super().C(n)

    def is_words0(self, x):
        """x is `&lang->words[0]`"""
        x = strip(x)
        if x.get("kind") != "UnaryOperator" or x.get("opcode") != "&":
            return False
        y = strip(x["inner"][0])
        if y.get("kind") != "ArraySubscriptExpr":
            return False
        b = strip(y["inner"][0])
        return b.get("kind") == "MemberExpr" and b.get("name") == "words" and cval(self.E(y["inner"][1])) == 0

    def scan_names(self, n, acc):
        if n.get("kind") in ("VarDecl", "ParmVarDecl"):
            acc.append((n["name"], n.get("type", {}).get("qualType", "")))
        for c in n.get("inner", []):
            if isinstance(c, dict):
                self.scan_names(c, acc)
        return acc

    def has_return(self, n):
        if n.get("kind") in ("ReturnStmt", "GotoStmt"):
            return True
        return any(isinstance(c, dict) and self.has_return(c) for c in n.get("inner", []))

    def cur(self, name, is_list):
        """current value of caller variable `name`"""
        if is_list:
            return self.array_value(name)
        if name in self.consts:
            return lit(self.consts[name])
        m = re.match(r"(.*)_(\d+)$", name)
        return name

    def arg_base(self, a):
        """the caller-side name an argument designates (object pointed to / array / scalar variable)"""
        a = strip(a)
        if a.get("kind") == "UnaryOperator" and a.get("opcode") == "&":
            return self.lval_name(strip(a["inner"][0]))
        return self.lval_name(a)

    def sizeof_text(self, n):
        tinfo = (n.get("argType") or (n["inner"][0].get("type") if n.get("inner") else {}) or {})
        t = (tinfo.get("desugaredQualType") or tinfo.get("qualType", "")).replace("const ", "").strip()
        t2 = tinfo.get("qualType", "").replace("const ", "").strip()
        for cand in (t, t2):
            if cand in STRUCT_SIZE:
                return "(Z.of_N %s)" % STRUCT_SIZE[cand]
        return None

    # ------------------------------------------------------------ expressions
    def E(self, n):
        if n.get("id") in self.hoisted:
            return self.hoisted[n["id"]]
        k = n["kind"]
        if k == "UnaryExprOrTypeTraitExpr" and n.get("name") == "sizeof":
            t = self.sizeof_text(n)
            if t is not None:
                return t
        if k == "BinaryOperator" and n.get("opcode") == "-":
            a0 = strip(n["inner"][0])
            if a0.get("kind") == "DeclRefExpr" and self.lval_name(a0) in self.bsearch_ptrs:
                if not self.is_words0(strip(n["inner"][1])):
                    raise Unsupported("the result of bsearch is not measured from &words[0]")
                return self.E(a0)      # (match - base): the result of bsearch is kept as an index, -1 for NULL
        if k == "CallExpr" and self.deps_member(n) is None:
            c0 = strip(n["inner"][0])
            if c0.get("kind") == "DeclRefExpr" and c0.get("referencedDecl", {}).get("kind") == "ParmVarDecl":
                # a call through a function-pointer parameter (the comparer): its two `const void*` arguments are
                # addresses of `const char*` objects
                fp = self.lval_name(c0)
                args = []
                for a in n["inner"][1:]:
                    sa = strip(a)
                    if sa.get("kind") == "UnaryOperator" and sa.get("opcode") == "&":
                        cp = self.char_ptr_expr(sa["inner"][0])
                        if cp is not None:
                            args.append(cp)
                            continue
                    raise Unsupported("argument of a call through %s is not the address of a string" % fp)
                self.env("call_" + fp, "Z" + " -> list Z" * len(args) + " -> Z")
                return "(call_%s %s %s)" % (fp, fp, " ".join(args))
            f = self.lval_name(n["inner"][0])
            if f == "bsearch":
                a = n["inner"][1:]
                key = strip(a[0])
                if not (key.get("kind") == "UnaryOperator" and key.get("opcode") == "&"):
                    raise Unsupported("bsearch key is not the address of a string")
                kp = self.char_ptr_expr(key["inner"][0])
                base = strip(a[1])
                lang_ = None
                stack = [base]
                while stack:
                    x = stack.pop()
                    if x.get("kind") == "DeclRefExpr" and "polyseed_lang" in x.get("type", {}).get("qualType", ""):
                        lang_ = self.E(x)
                        break
                    stack += [c for c in x.get("inner", []) if isinstance(c, dict)]
                if kp is None or lang_ is None:
                    raise Unsupported("bsearch over something that is not a word list")
                if not self.is_words0(base) or cval(self.E(a[3])) != 8:
                    raise Unsupported("bsearch not over the whole word list (base &words[0], elements of pointer size)")
                self.env("ext_bsearch", "Z -> list Z -> Z -> Z -> Z")
                return "(ext_bsearch %s %s %s %s)" % (lang_, kp, self.E(a[2]), self.E(a[4]))
            if f in SIGS and (f not in EXTERNS or (f in API_OWN and self.name in OWN_CALLERS)):
                sig = SIGS[f]
                if sig["outs"] or sig["option"]:
                    raise Unsupported("call of %s inside an expression that is evaluated more than once" % f)
                return "(%s %s)" % (f, " ".join(self.actuals(n, sig)))
        if k == "UnaryOperator" and n.get("opcode") == "*":
            p = strip(n["inner"][0])
            if p.get("kind") == "DeclRefExpr" and self.lval_name(p) in self.idx_ptrs:
                nm = self.lval_name(p)
                self.needs_sgn = True     # the value of a plain char: the byte, or byte - 256 where char is signed
                return "(rdb sgn (@nth Z (Z.to_nat %s) %s 0))" % (self.E(p), self.idx_ptrs[nm])
        if k == "BinaryOperator" and n.get("opcode") == "-":
            a_, b_ = strip(n["inner"][0]), strip(n["inner"][1])
            if a_.get("kind") == "DeclRefExpr" and self.lval_name(a_) in self.idx_ptrs and \
                    b_.get("kind") == "DeclRefExpr" and self.lval_name(b_) == self.idx_ptrs[self.lval_name(a_)]:
                return self.E(a_)
        if k == "UnaryOperator" and n.get("opcode") == "&":
            f_ = strip(n["inner"][0])
            if f_.get("kind") == "DeclRefExpr" and f_.get("referencedDecl", {}).get("kind") == "FunctionDecl":
                nm = f_["referencedDecl"]["name"]
                if nm not in FUNC_CODES:
                    raise Unsupported("address of function " + nm)
                return lit(FUNC_CODES[nm])       # a comparer is denoted by its number
        if k == "MemberExpr":
            # lang->compose and the like: a registered language is a registry position; its fields are functions of it
            base = strip(n["inner"][0])
            if "polyseed_lang" in base.get("type", {}).get("qualType", ""):
                fn_ = "lang_" + n["name"]
                self.env(fn_, "Z -> Z")
                return "(%s %s)" % (fn_, self.E(base))
        return super().E(n)

    def char_ptr_expr(self, a):
        x = strip(a)
        if x.get("kind") == "MemberExpr" and "polyseed_lang" in strip(x["inner"][0]).get("type", {}).get("qualType", ""):
            fn_ = "lang_" + x["name"]
            self.env(fn_, "Z -> list Z")
            return "(%s %s)" % (fn_, self.E(x["inner"][0]))
        if x.get("kind") == "ArraySubscriptExpr":
            b = strip(x["inner"][0])
            if b.get("kind") == "MemberExpr" and "polyseed_lang" in strip(b["inner"][0]).get("type", {}).get("qualType", ""):
                fn_ = "lang_" + b["name"]
                self.env(fn_, "Z -> Z -> list Z")
                return "(%s %s %s)" % (fn_, self.E(b["inner"][0]), self.E(x["inner"][1]))
        return super().char_ptr_expr(a)

    def target(self, n):
        x = n
        while x.get("kind") == "ParenExpr":
            x = x["inner"][0]
        if x.get("kind") == "UnaryOperator" and x.get("opcode") == "*":
            p = strip(x["inner"][0])
            if p.get("kind") == "DeclRefExpr" and self.lval_name(p) in self.idx_ptrs:
                return self.idx_ptrs[self.lval_name(p)], self.E(p)
        return super().target(n)

    def lval_base(self, n):
        x = n
        while x.get("kind") == "ParenExpr":
            x = x["inner"][0]
        if x.get("kind") == "UnaryOperator" and x.get("opcode") == "*":
            p = strip(x["inner"][0])
            if p.get("kind") == "DeclRefExpr" and self.lval_name(p) in self.idx_ptrs:
                return self.idx_ptrs[self.lval_name(p)]
        return super().lval_base(n)

    def assign(self, tgt, rhs):
        name, idx = tgt
        if idx is not None and name in self.char_arrays:
            v = cval(rhs)
            rhs = lit(v % 256) if v is not None else "(%s mod 256)" % rhs     # memory holds bytes
        return super().assign(tgt, rhs)

    def actuals(self, call, sig):
        args = call["inner"][1:]
        cps = sig["cparams"]
        out = list(sig["extra"]) + list(sig["globals"])
        for x in sig["extra"]:
            self.need_extra(x, sig)
        for (g, ty) in sig["params"]:
            if g in sig["globals"]:
                continue
            out.append(self.actual_for(g, ty, cps, args, sig))
        return out

    def need_extra(self, x, sig):
        ty = sig["extra_ty"][x]
        if x == "fuel":
            self.uses_fuel = True
        elif x == "sgn":
            self.needs_sgn = True
        elif x.startswith("dep_"):
            self.deps_used.add(x[4:])
        elif (x, ty) not in self.exts_used:
            self.exts_used.append((x, ty))

    def caller_name(self, g, cps, args, sig=None):
        if sig is not None and g in sig.get("implicit", {}):
            via = sig["implicit"][g]
            for (p, pty), a in zip(cps, args):
                if p == via:
                    return self.idx_ptrs[self.arg_base(a)], a, True
        for (p, pty), a in zip(cps, args):
            sa = strip(a)
            if g == p + "_0" and sa.get("kind") == "UnaryOperator" and sa.get("opcode") == "&" and \
                    strip(sa["inner"][0]).get("kind") == "DeclRefExpr":
                return self.lval_name(strip(sa["inner"][0])), a, False
        for (p, pty), a in zip(cps, args):
            if g == p:
                return self.arg_base(a), a, True
            if g.startswith(p + "_"):
                return self.arg_base(a) + g[len(p):], a, False
        raise Unsupported("parameter %s of the callee is not matched by an argument" % g)

    def actual_for(self, g, ty, cps, args, sig=None):
        for (p, pty), a in zip(cps, args):
            if sig is not None and g in sig.get("implicit", {}):
                break
            if g == p and not ty.startswith("list"):
                sa = strip(a)
                if pty.endswith("*") and not pty.endswith("char *"):
                    # a pointer passed for its nullness only (lang_out)
                    return self.E(a)
                return self.E(a)
        if not (sig is not None and g in sig.get("implicit", {})):
            for (p, pty), a in zip(cps, args):
                if g == p and ty == "list Z":
                    cp = self.char_ptr_expr(a)
                    if cp is not None:
                        return cp
        name, a, whole = self.caller_name(g, cps, args, sig)
        if ty == "list (list Z)" and name in self.idx_arrays:
            return "(map (cstr_at %s) %s)" % (self.cur(self.idx_arrays[name], True), self.cur(name, True))
        if ty.startswith("list"):
            if whole and not (sig is not None and g in sig.get("implicit", {})):
                cp = self.char_ptr_expr(a)
                if cp is not None:
                    return cp
            return self.cur(name, True) if name not in self.char_ptrs else name
        return self.cur(name, False)

    # ------------------------------------------------------------ hoisting of calls with effects / results
    def hoist(self, n):
        """text binding the calls inside expression n that cannot stay inside an expression"""
        out = ""
        if not isinstance(n, dict) or n.get("id") in self.hoisted:
            return out
        if n.get("kind") in ("CompoundStmt", "IfStmt", "ForStmt", "WhileStmt", "DeclStmt", "ReturnStmt", "LabelStmt"):
            return out
        for c in n.get("inner", []):
            out += self.hoist(c)
        if n.get("kind") != "CallExpr":
            return out
        dm = self.deps_member(n)
        if dm == "alloc":
            sz = self.E(n["inner"][1])
            self.hoisted[n["id"]] = self.env("env_alloc", "Z")
            self.new_ids.append(n["id"])
            return out + self.event("CAlloc %s env_alloc" % sz)
        if dm == "time":
            self.hoisted[n["id"]] = self.env("env_time", "Z")
            self.new_ids.append(n["id"])
            return out + self.event("CTime")
        if dm in ("u8_nfc", "u8_nfkd"):
            src = self.arg_base(n["inner"][1])
            dst = self.arg_base(n["inner"][2])
            self.deps_used.add(dm)
            self.tmpn += 1
            r = "depret%d" % self.tmpn
            self.hoisted[n["id"]] = r
            self.new_ids.append(n["id"])
            txt = self.event("C%s %s" % (dm[3:].capitalize(), self.cur(src, True)))
            txt += "let '(%s, %s) := dep_%s %s in\n" % (dst, r, dm, self.cur(src, True))
            self.elems[dst] = set()
            return out + txt
        if dm is not None:
            return out
        try:
            f = self.lval_name(n["inner"][0])
        except Unsupported:
            return out
        if f in API_INLINE or f in INLINE or f not in SIGS or (f in EXTERNS and not (f in API_OWN and self.name in OWN_CALLERS)):
            return out
        sig = SIGS[f]
        if not sig["outs"] and not sig["option"] and f != "utf8_nfkd_lazy":
            return out
        acts = self.actuals(n, sig)
        names = []
        ev_merge = False
        for g in sig["outs"]:
            if g == "ev":
                names.append(("evc", "list cev"))      # the callee's events, appended to the caller's below
                ev_merge = True
                continue
            nm, _a, _w = self.caller_name(g, sig["cparams"], n["inner"][1:], sig)
            names.append((nm, dict(sig["params"]).get(g, "Z")))
            if g in sig.get("idx_out", {}):
                basenm, _a2, _w2 = self.caller_name(sig["idx_out"][g], sig["cparams"], n["inner"][1:], sig)
                self.idx_arrays[nm] = basenm
        pat = [nm for nm, _ in names]
        if not sig["void"]:
            self.tmpn += 1
            r = "callret%d" % self.tmpn
            pat.append(r)
            self.hoisted[n["id"]] = r
        else:
            self.hoisted[n["id"]] = "0"
        self.new_ids.append(n["id"])
        txt = ""
        if f == "utf8_nfkd_lazy":
            txt += self.event("CNfkdLazy %s" % acts[-2])
        callt = "%s %s" % (f, " ".join(acts))
        for nm, ty in names:
            if ty.startswith("list"):
                for i in list(self.elems.get(nm, ())):
                    self.consts.pop("%s_%d" % (nm, i), None)
                self.elems[nm] = set()
            else:
                self.consts.pop(nm, None)
        if sig["option"]:
            self.uses_option = True
            self.open_matches = getattr(self, "open_matches", 0)
            # the return type is written out: without it an ill-typed body makes Coq retry every enclosing match
            rt = getattr(self, "opt_rty", "_")
            lp = self.pat(pat)
            bind = ("let %s := callres return %s in\n" % (lp, rt)) if lp.startswith("'") else ("let %s := callres in\n" % lp)
            txt += "match %s return %s with None => None | Some callres => %s" % (callt, rt, bind)
            self.pending_close = getattr(self, "pending_close", 0) + 1
        else:
            txt += "let %s := %s in\n" % (self.pat(pat), callt)
        if ev_merge:
            self.uses_ev = True
            txt += "let ev : list cev := ev ++ evc in\n"
        return out + txt

    def close(self, text):
        """close the `match ... with` opened by option-returning calls hoisted in front of `text`"""
        n = getattr(self, "pending_close", 0)
        self.pending_close = 0
        return text, n

    # ------------------------------------------------------------ statements
    def S(self, stmts, k):
        if not stmts:
            return k()
        n, rest = stmts[0], stmts[1:]
        kind = n["kind"]
        if kind == "GotoStmt":
            tid = n.get("targetLabelDeclId")
            for i, s in enumerate(self.top):
                if s.get("kind") == "LabelStmt" and s.get("declId") == tid:
                    return self.S(self.top[i:], self.top_k)
            raise Unsupported("goto to a label that is not at the top level of the function")
        if kind == "LabelStmt":
            return self.S(list(n.get("inner", [])) + rest, k)
        if kind == "DoStmt":
            body_, cond_ = n["inner"][0], n["inner"][1]
            if self.has_break(body_) or self.has_continue(body_) or self.C(cond_) != "false":
                raise Unsupported("do-while that is not `do {...} while (false)`")
            return self.S([body_] + rest, k)
        if kind == "DeclStmt":
            for v0 in n["inner"]:
                if v0.get("kind") == "VarDecl" and v0.get("storageClass") == "static":
                    raise Unsupported("static local %s: state kept between calls is outside the fragment" % v0.get("name"))
                if v0.get("kind") == "VarDecl":
                    q0 = (v0.get("type", {}).get("desugaredQualType") or v0.get("type", {}).get("qualType", ""))
                    if (re.search(r"\[\d+\]$", q0.strip()) or q0.replace("const ", "").strip() in ("gf_poly", "struct gf_poly")) \
                            and v0["name"] not in self.locals:
                        self.locals.append(v0["name"])
        if kind == "DeclStmt" and len(n["inner"]) == 1 and n["inner"][0]["kind"] == "VarDecl":
            v = n["inner"][0]
            name = self.rename.get(v["name"], v["name"])
            if name != v["name"]:
                v = dict(v)
                v["name"] = name
                n = dict(n)
                n["inner"] = [v]
                stmts = [n] + rest
            qt = v.get("type", {}).get("qualType", "")
            dq = ctype(v)
            init = [c for c in v.get("inner", []) if c.get("kind") not in ("FullComment",)]
            if qt in ("gf_poly",) and init and init[0]["kind"] == "InitListExpr":
                arr = name + "_coeff"
                self.arr_len[arr] = 16
                self.elems[arr] = set(range(16))
                # { a, b, ... }: the listed values, the rest zero (clang shows the omitted ones as ImplicitValueInitExpr)
                vals_ = [0] * 16
                inner0 = [c for c in init[0].get("inner", []) if isinstance(c, dict)]
                lst = inner0[0] if inner0 and inner0[0].get("kind") == "InitListExpr" else init[0]
                items = [c for c in lst.get("inner", []) if isinstance(c, dict)]
                if lst.get("array_filler"):
                    items = [c for c in lst["array_filler"] if isinstance(c, dict) and c.get("kind") != "ImplicitValueInitExpr"]
                pos_ = 0
                for c in items:
                    if c.get("kind") == "ImplicitValueInitExpr":
                        continue
                    v_ = cval(self.E(c))
                    if v_ is None or pos_ >= 16:
                        raise Unsupported("initialiser of %s is not a list of constants" % name)
                    vals_[pos_] = v_
                    pos_ += 1
                for i in range(16):
                    self.consts["%s_%d" % (arr, i)] = vals_[i]
                return "let %s : list Z := repeat 0 16 in\n" % arr + self.S(rest, k)
            if "polyseed_cmp" in qt and init:
                pre = self.hoist(init[0])
                if pre:
                    return self.with_hoist(pre, n, rest, k)
                return self.assign((name, None), self.E(init[0])) + self.S(rest, k)
            if init and strip(init[0]).get("kind") == "CallExpr" and \
                    strip(strip(init[0])["inner"][0]).get("referencedDecl", {}).get("name") == "bsearch":
                self.bsearch_ptrs.add(name)
                return self.assign((name, None), self.E(strip(init[0]))) + self.S(rest, k)
            if re.match(r"(const )?(struct )?polyseed_data \*$", dq) or "polyseed_data *" in qt:
                self.struct_ptrs.add(name)
                if not init:
                    return self.S(rest, k)
                pre = self.hoist(init[0])
                return pre + self.assign((name, None), self.E(init[0])) + self.S(rest, k)
            m_arr = re.search(r"\[(\d+)\]$", dq.strip())
            if m_arr and not init and "*" in dq:
                self.arr_len[name] = int(m_arr.group(1))
                return "let %s : list Z := repeat 0 %d in\n" % (name, int(m_arr.group(1))) + self.S(rest, k)
            if self.idx_mode and dq.endswith("char *") and init:
                i0 = strip(init[0])
                if i0.get("kind") == "DeclRefExpr":
                    src = self.lval_name(i0)
                    if src in self.idx_ptrs:
                        self.idx_ptrs[name] = self.idx_ptrs[src]
                        return self.assign((name, None), self.E(i0)) + self.S(rest, k)
                    self.idx_ptrs[name] = src
                    self.char_arrays.add(src)
                    return self.assign((name, None), "0") + self.S(rest, k)
                if i0.get("kind") == "UnaryOperator" and i0.get("opcode") == "*" and name in self.idx_spec:
                    self.idx_ptrs[name] = self.idx_spec[name]
                    self.char_arrays.add(self.idx_spec[name])
                    return self.assign((name, None), self.E(i0)) + self.S(rest, k)
                raise Unsupported("char pointer %s initialised from something that is not an array or a pointer into one" % name)
            if m_arr and not init and "*" not in dq:
                self.arr_len[name] = int(m_arr.group(1))
                if dq.startswith("char"):
                    self.char_arrays.add(name)
                return "let %s : list Z := repeat 0 %d in\n" % (name, int(m_arr.group(1))) + self.S(rest, k)
            if m_arr and init and strip(init[0]).get("kind") == "StringLiteral":
                ln = int(m_arr.group(1))
                lit_s = strip(init[0])["value"]
                bs = json.loads(lit_s).encode("latin-1") if lit_s.startswith('"') else lit_s.encode("latin-1")
                bs = bs + b"\0" * (ln - len(bs))
                self.arr_len[name] = ln
                self.elems[name] = set(range(ln))
                for i in range(ln):
                    self.consts["%s_%d" % (name, i)] = bs[i]
                return "let %s : list Z := repeat 0 %d in\n" % (name, ln) + self.S(rest, k)
            if init:
                pre = self.hoist(init[0])
                if pre:
                    return self.with_hoist(pre, n, rest, k)
        if kind == "IfStmt":
            pre = self.hoist(n["inner"][0])
            if pre:
                return self.with_hoist(pre, n, rest, k)
            c = self.C(n["inner"][0])
            parts = n["inner"]
            then = parts[1]
            els = parts[2] if len(parts) > 2 else None
            if c not in ("true", "false") and (self.has_return(then) or (els is not None and self.has_return(els))):
                snap = self.snapshot()
                t = self.S([then] + rest, k)
                self.restore(snap)
                e = self.S(([els] if els is not None else []) + rest, k)
                self.restore(snap)
                return "if %s then (%s) else (\n%s)" % (c, t, e)
        if kind == "ReturnStmt" and n.get("inner"):
            pre = self.hoist(n["inner"][0])
            if pre:
                return self.with_hoist(pre, n, rest, k)
        if kind == "BinaryOperator" and n.get("opcode") == "=" and \
                "polyseed_dependency" in n.get("type", {}).get("qualType", "") and "*" not in n.get("type", {}).get("qualType", ""):
            # struct assignment of the dependency table: field by field
            self.check_global_write(n["inner"][0])
            lhs = self.lval_name(strip(n["inner"][0]))
            r0 = strip(n["inner"][1])
            if r0.get("kind") == "UnaryOperator" and r0.get("opcode") == "*":
                rhs = self.lval_name(strip(r0["inner"][0]))
            else:
                rhs = self.lval_name(r0)
            if not DEP_FIELDS:
                raise Unsupported("fields of polyseed_dependency unknown")
            out = ""
            for fld in DEP_FIELDS:
                out += self.assign(("%s_%s" % (lhs, fld), None), self.cur("%s_%s" % (rhs, fld), False))
            return out + self.S(rest, k)
        if kind in ("BinaryOperator", "CompoundAssignOperator") and n.get("opcode", "").endswith("=") and \
                n["opcode"] not in ("==", "!=", "<=", ">="):
            pre = self.hoist(n["inner"][1]) + self.hoist(n["inner"][0])
            if pre:
                return self.with_hoist(pre, n, rest, k)
            lhs = strip(n["inner"][0])
            if lhs.get("kind") == "DeclRefExpr" and lhs["referencedDecl"]["name"] in self.struct_ptrs:
                return self.assign((lhs["referencedDecl"]["name"], None), self.E(n["inner"][1])) + self.S(rest, k)
        if kind == "CallExpr":
            if n.get("id") in self.hoisted:
                return self.S(rest, k)
            dm = self.deps_member(n)
            if dm is None:
                f = self.lval_name(n["inner"][0])
                if f == "memcpy" and self.const_of(n["inner"][3]) is None:
                    dst, src = self.arg_base(n["inner"][1]), self.arg_base(n["inner"][2])
                    cnt = "(Z.to_nat %s)" % self.E(n["inner"][3])
                    txt = "let %s : list Z := firstn %s %s ++ skipn %s %s in\n" % (
                        dst, cnt, self.cur(src, True), cnt, self.cur(dst, True))
                    self.elems[dst] = set()
                    return txt + self.S(rest, k)
                if f in API_INLINE:
                    return self.inline_api(n, lambda val: self.S(rest, k))
                pre = self.hoist(n)
                if pre:
                    return self.with_hoist(pre, n, rest, k)
                for a in n["inner"][1:]:
                    pre += self.hoist(a)
                if pre:
                    return self.with_hoist(pre, n, rest, k)
            else:
                args = n["inner"][1:]
                pre = ""
                for a in args:
                    pre += self.hoist(a)
                if pre:
                    return self.with_hoist(pre, n, rest, k)
                if dm == "memzero":
                    a0 = strip(args[0])
                    if a0.get("kind") == "UnaryOperator" and a0.get("opcode") == "&":
                        obj = self.lval_name(strip(a0["inner"][0]))
                        return self.event('CWipe "%s"%%string %s' % (obj, self.E(args[1]))) + self.S(rest, k)
                    return self.event("CWipeP %s %s" % (self.E(args[0]), self.E(args[1]))) + self.S(rest, k)
                if dm == "free":
                    return self.event("CFree %s" % self.E(args[0])) + self.S(rest, k)
                if dm == "randbytes":
                    base, off = self.pointee(args[0])
                    cnt = cval(self.E(args[1]))
                    if cnt is None:
                        raise Unsupported("random bytes of a data-dependent size")
                    self.env("env_rand", "list Z")
                    out = self.event("CRand %d" % cnt)
                    for i in range(cnt):
                        self.elems.setdefault(base, set()).add(off + i)
                        out += self.assign(("%s_%d" % (base, off + i), None), "((@nth Z %d%%nat env_rand 0) mod 256)" % i)
                    return out + self.S(rest, k)
                if dm == "pbkdf2_sha256":
                    pw = self.cur(self.arg_base(args[0]), True)
                    salt = self.cur(self.arg_base(args[2]), True)
                    nums = [self.E(args[i]) for i in (1, 3, 4, 6)]
                    key = self.arg_base(args[5])
                    self.env("dep_kdf", "list Z -> Z -> list Z -> Z -> Z -> Z -> list Z")
                    call = "%s %s %s %s %s %s" % (pw, nums[0], salt, nums[1], nums[2], nums[3])
                    out = self.event("CKdf " + call)
                    out += "let %s : list Z := dep_kdf %s in\n" % (key, call)
                    for i in list(self.elems.get(key, ())):
                        self.consts.pop("%s_%d" % (key, i), None)
                    self.elems[key] = set()
                    return out + self.S(rest, k)
                raise Unsupported("call of polyseed_deps." + dm)
        return super().S(stmts, k)

    def with_hoist(self, pre, n, rest, k):
        """statement n, whose calls were just bound by `pre`; the bindings are forgotten once n is done
        (the same statement may be translated again: unrolled loops, duplicated continuations)"""
        ids, self.new_ids = self.new_ids, []
        ncl = getattr(self, "pending_close", 0)
        self.pending_close = 0
        saved = {i: self.hoisted[i] for i in ids if i in self.hoisted}

        def k2():
            for i in ids:
                self.hoisted.pop(i, None)
            return self.S(rest, k)
        self.hoisted.update(saved)
        body = self.S([n], k2)
        for i in ids:
            self.hoisted.pop(i, None)
        return pre + body + ("\nend" * ncl)

    def wrap_close(self, pre, cont):
        ncl = getattr(self, "pending_close", 0)
        self.pending_close = 0
        body = cont()
        return pre + body + ("\nend" * ncl)

    def pointee(self, a):
        s = strip(a)
        if s.get("kind") == "UnaryOperator" and s.get("opcode") == "&":
            inner = strip(s["inner"][0])
            if inner.get("kind") == "ArraySubscriptExpr":
                nm = self.lval_name(inner["inner"][0])
                v = cval(self.E(inner["inner"][1]))
                if v is None:
                    raise Unsupported("address of an element at a data-dependent index")
                self.note_len(nm, inner["inner"][0])
                return (nm, v)
            return (self.lval_name(inner), 0)
        return super().pointee(a)

    def inline_api(self, call, kret):
        f = self.lval_name(call["inner"][0])
        node = ast_of(self.repo, API_INLINE[f], f)
        self.add_local_ids(node)
        params = [p for p in node["inner"] if p.get("kind") == "ParmVarDecl"]
        args = call["inner"][1:]
        out = ""
        saved_ptrs = dict(self.ptrs)
        for p, a in zip(params, args):
            ty = ctype(p)
            if "polyseed_data" in ty:
                self.struct_ptrs.add(p["name"])
                val = self.E(a)
                if val != p["name"]:
                    out += self.assign((p["name"], None), val)
            elif ty.endswith("*"):
                self.ptrs[p["name"]] = self.pointee(a)
            else:
                out += self.assign((p["name"], None), wrap(self.E(a), ty))
        body = [c for c in node["inner"] if c.get("kind") == "CompoundStmt"][0]
        saved_ret = self.ret_hook

        def done(val):
            self.ret_hook = saved_ret
            for p in params:
                if ctype(p).endswith("*") and "polyseed_data" not in ctype(p):
                    self.ptrs.pop(p["name"], None)
            for nm, v in saved_ptrs.items():
                self.ptrs.setdefault(nm, v)
            return kret(val)
        self.ret_hook = done
        return out + self.S([body], lambda: done(None))

    def assigned(self, n, acc):
        if n.get("kind") == "CallExpr":
            dm = self.deps_member(n)
            if dm is not None:
                acc.add("ev")
                if dm in ("u8_nfc", "u8_nfkd"):
                    acc.add(self.arg_base(n["inner"][2]))
                if dm == "randbytes":
                    try:
                        acc.add(self.pointee(n["inner"][1])[0])
                    except Unsupported:
                        acc.add("@unknown")
                if dm == "pbkdf2_sha256":
                    acc.add(self.arg_base(n["inner"][6]))
            else:
                try:
                    f = self.lval_name(n["inner"][0])
                except Unsupported:
                    f = None
                if f in API_INLINE:
                    acc.add("ev")
                if f == "memcpy":
                    acc.add(self.arg_base(n["inner"][1]))
                if f in SIGS and f not in EXTERNS and f not in ("memcpy",):
                    try:
                        for g in SIGS[f]["outs"]:
                            if g == "ev":
                                acc.add("ev")
                                continue
                            acc.add(self.caller_name(g, SIGS[f]["cparams"], n["inner"][1:], SIGS[f])[0])
                    except (Unsupported, KeyError):
                        pass
                    if f == "utf8_nfkd_lazy":
                        acc.add("ev")
        return super().assigned(n, acc)

    def dep_call(self, n):
        return None

    def translate(self, params, outs, rty):
        body = [c for c in self.node["inner"] if c.get("kind") == "CompoundStmt"][0]
        self.top = list(body.get("inner", []))
        self.outs = outs
        for p in self.node["inner"]:
            if p.get("kind") == "ParmVarDecl" and ctype(p).endswith("char *"):
                self.char_ptrs.add(p["name"])
            if p.get("kind") == "ParmVarDecl" and "polyseed_data" in ctype(p) and ctype(p).count("*") == 1:
                self.struct_ptrs.add(p["name"])
            if p.get("kind") == "ParmVarDecl" and not self.idx_mode and \
                    re.match(r"(const )?char \*(const )?\s*\*", p.get("type", {}).get("qualType", "")):
                self.str_arrays.add(p["name"])
        if self.idx_mode:
            for p in self.node["inner"]:
                if p.get("kind") != "ParmVarDecl":
                    continue
                q = p.get("type", {}).get("qualType", "")
                if q == "char *":
                    self.char_ptrs.discard(p["name"])
                    self.char_arrays.add(p["name"])
                if q.endswith("**"):
                    self.str_arrays.discard(p["name"])
                    if p["name"] in self.idx_spec.get("@scalars", ()):
                        self.pre_elems = {p["name"]: {0}}
        names = self.scan_names(self.node, [])
        prefixes = [nm for nm, ty in names if "polyseed_data" in ty or "gf_poly" in ty]
        for nm, ty in names:
            if any(nm == p + "_" + fld for p in prefixes for fld in ("birthday", "features", "secret", "checksum", "coeff")):
                self.rename[nm] = nm + "_loc"
            if nm in COQ_KEYWORDS:
                self.rename[nm] = nm + "_v"
        text = None
        self.uses_option_final = False
        self.opt_rty = "option (%s)" % rty
        for _pass in (0, 1):
            self.uses_option = False
            self.consts, self.elems, self.ptrs = {}, {a: set(b) for a, b in getattr(self, "pre_elems", {}).items()}, {}
            self.idx_ptrs, self.idx_arrays = {}, {}
            self.hoisted = {}
            self.tmpn = 0
            self.asserts = []
            self.pending_close = 0
            self.arr_len = dict(getattr(self, "arr_len0", {}))
            self.top_k = lambda: self.ret(None)
            text = self.S([body], self.top_k)
            self.uses_option_final = self.uses_option
        if self.uses_option_final:
            rty = "option (%s)" % rty
        extra = []
        if self.uses_fuel:
            extra.append(("fuel", "nat"))
        if "(rdc sgn " in text or getattr(self, "needs_sgn", False):
            extra.append(("sgn", "bool"))
        for dn in sorted(self.deps_used):
            extra.append(("dep_" + dn, "list Z -> list Z * Z"))
        for (gname, gty) in self.exts_used:
            extra.append((gname, gty))
        for (gname, gty) in self.env_used:
            extra.append((gname, gty))
        self.extra_params = [p[0] for p in extra]
        self.extra_ty = dict(extra)
        head = "let ev : list cev := [] in\n"
        return "Definition %s %s : %s :=\n%s%s." % (self.name, " ".join("(%s : %s)" % p for p in extra + params), rty, head, text)


API_PRELUDE = """(* GENERATED by tools/c2coq.py from /repo's current src/polyseed.c - do not edit *)
From Coq Require Import ZArith List Bool String.
From PS.Gen Require Import Consts PrivConsts CFuns.
Import ListNotations.
Local Open Scope Z_scope.

(* calls made through the dependency table, in program order, with the arguments the code computed *)
Inductive cev :=
| CAlloc (n res : Z)
| CFree (p : Z)
| CWipe (obj : string) (len : Z)
| CWipeP (p len : Z)
| CRand (n : Z)
| CTime
| CKdf (pw : list Z) (pwlen : Z) (salt : list Z) (saltlen iters keylen : Z)
| CNfc (s : list Z)
| CNfkdLazy (s : list Z).

(* the C string a `char*` designates: the bytes from there up to the terminator *)
Fixpoint cstr (s : list Z) : list Z :=
  match s with
  | [] => []
  | b :: t => if b =? 0 then [] else b :: cstr t
  end.
Definition cstr_at (buf : list Z) (off : Z) : list Z := cstr (skipn (Z.to_nat off) buf).

(* the value of a plain `char` holding byte b (0..255): b, or b - 256 where plain char is signed *)
Definition rdb (sgn : bool) (b : Z) : Z := if sgn && (128 <=? b) then b - 256 else b.
"""

DATA = [("%s_birthday", "Z"), ("%s_features", "Z"), ("%s_secret", "list Z"), ("%s_checksum", "Z")]


def data_params(p):
    return [(a % p, t) for a, t in DATA]


# (file, function, parameters, results besides the return value, globals, result type)
API_TARGETS = [
    ("gf.c", "gf_poly_check", [("polyseed_mul2_table", "list Z"), ("message_coeff", "list Z")], [], ["polyseed_mul2_table"], "Z"),
    ("gf.c", "gf_poly_encode", [("polyseed_mul2_table", "list Z"), ("message_coeff", "list Z")], ["message_coeff"], ["polyseed_mul2_table"], "list Z"),
    ("lang.c", "get_comparer", [("lang", "Z")], [], [], "Z"),
    ("dependency.c", "polyseed_inject", "@inject", "@inject", [], "@inject"),
    ("lang.c", "lang_search", [("lang", "Z"), ("word", "list Z"), ("cmp", "Z")], [], [], "Z"),
    ("lang.c", "polyseed_lang_find_word", [("lang", "Z"), ("word", "list Z")], [], [], "Z"),
    ("polyseed.c", "polyseed_free", [("seed", "Z")], ["ev"], [], "list cev"),
    ("polyseed.c", "polyseed_get_birthday", data_params("data"), [], [], "Z"),
    ("polyseed.c", "polyseed_get_feature", data_params("seed") + [("mask", "Z")], [], [], "Z"),
    ("polyseed.c", "polyseed_is_encrypted", data_params("seed"), [], [], "Z"),
    ("polyseed.c", "polyseed_store", data_params("seed") + [("storage", "list Z")], ["storage"], [], "list Z"),
    ("polyseed.c", "polyseed_load",
     [("polyseed_mul2_table", "list Z"), ("reserved_features", "Z"), ("storage", "list Z")] + data_params("seed") + [("seed_out_0", "Z")],
     ["ev"] + [a for a, _ in data_params("seed")] + ["seed_out_0"], ["polyseed_mul2_table", "reserved_features"],
     "list cev * Z * Z * list Z * Z * Z * Z"),
    ("polyseed.c", "polyseed_create",
     [("polyseed_mul2_table", "list Z"), ("reserved_features", "Z"), ("features", "Z")] + data_params("seed") + [("seed_out_0", "Z")],
     ["ev"] + [a for a, _ in data_params("seed")] + ["seed_out_0"], ["polyseed_mul2_table", "reserved_features"],
     "list cev * Z * Z * list Z * Z * Z * Z"),
    ("polyseed.c", "polyseed_keygen", data_params("seed") + [("coin", "Z"), ("key_size", "Z"), ("key_out", "list Z")],
     ["ev", "key_out"], [], "list cev * list Z"),
    ("polyseed.c", "polyseed_crypt",
     [("polyseed_mul2_table", "list Z")] + data_params("seed") + [("password", "list Z")],
     ["ev"] + [a for a, _ in data_params("seed")], ["polyseed_mul2_table"], "list cev * Z * Z * list Z * Z"),
]


API_TARGETS += [
    ("lang.c", "polyseed_phrase_decode",
     [("phrase", "list (list Z)"), ("idx_out", "list Z"), ("lang_out", "Z"), ("lang_out_0", "Z")],
     ["ev", "idx_out", "lang_out_0"], [], "list cev * list Z * Z * Z"),
    ("polyseed.c", "str_split", [("str", "list Z"), ("words", "list Z")], ["str", "words"], [], "list Z * list Z * Z"),
    ("polyseed.c", "polyseed_decode",
     [("polyseed_mul2_table", "list Z"), ("reserved_features", "Z"), ("str", "list Z"), ("coin", "Z"),
      ("lang_out", "Z"), ("lang_out_0", "Z")] + data_params("seed") + [("seed_out_0", "Z")],
     ["ev", "lang_out_0"] + [a for a, _ in data_params("seed")] + ["seed_out_0"], ["polyseed_mul2_table", "reserved_features"],
     "list cev * Z * Z * Z * list Z * Z * Z * Z"),
    ("polyseed.c", "polyseed_decode_explicit",
     [("polyseed_mul2_table", "list Z"), ("reserved_features", "Z"), ("str", "list Z"), ("coin", "Z"),
      ("lang", "Z")] + data_params("seed") + [("seed_out_0", "Z")],
     ["ev"] + [a for a, _ in data_params("seed")] + ["seed_out_0"], ["polyseed_mul2_table", "reserved_features"],
     "list cev * Z * Z * list Z * Z * Z * Z"),
    ("polyseed.c", "write_str", [("buf", "list Z"), ("pos_0", "Z"), ("str", "list Z")], ["buf", "pos_0"], [], "list Z * Z"),
    ("polyseed.c", "polyseed_encode",
     data_params("data") + [("lang", "Z"), ("coin", "Z"), ("str_out", "list Z")], ["ev", "str_out"], [],
     "list cev * list Z * Z"),
]
IDX_MODE = {"str_split": {}, "write_str": {"loc": "buf", "@scalars": ("pos",)}, "polyseed_encode": {}}
SIG_EXTRA = {"str_split": {"idx_out": {"words": "str"}}, "write_str": {"implicit": {"buf": "pos"}}}


def load_dep_fields(repo):
    cmd = ["clang", "-std=c11", "-fsyntax-only", "-I", repo + "/include", "-Xclang", "-ast-dump=json",
           "-Xclang", "-ast-dump-filter=polyseed_dependency", repo + "/include/polyseed.h"]
    txt = subprocess.run(cmd, stdout=subprocess.PIPE, stderr=subprocess.DEVNULL, universal_newlines=True).stdout
    dec = json.JSONDecoder()
    i = 0
    while i < len(txt):
        while i < len(txt) and txt[i] in " \n\r\t":
            i += 1
        if i >= len(txt):
            break
        d, i = dec.raw_decode(txt, i)
        if d.get("kind") == "RecordDecl" and d.get("completeDefinition"):
            DEP_FIELDS[:] = [c["name"] for c in d.get("inner", []) if c.get("kind") == "FieldDecl"]
            return


def api_main(repo, out, base_info):
    load_dep_fields(repo)
    parts = [API_PRELUDE]
    status = {}
    known = {}
    for src, fn, params, outs, gl, rty in API_TARGETS:
        if params == "@inject":
            # the table handed in and the table in place before the call, one integer per entry (0 = NULL)
            params = [("deps_" + x, "Z") for x in DEP_FIELDS] + [("polyseed_deps_" + x, "Z") for x in DEP_FIELDS]
            outs = ["polyseed_deps_" + x for x in DEP_FIELDS]
            rty = " * ".join("Z" for _ in DEP_FIELDS) or "unit"
        try:
            node = ast_of(repo, src, fn)
            f = ApiFn(fn, node, gl, known)
            f.repo = repo
            f.arr_len0 = dict(ARRAY_LEN.get(fn, {}))
            if fn in IDX_MODE:
                f.idx_mode = True
                f.idx_spec = IDX_MODE[fn]
            text = f.translate(params, outs, rty)
            parts.append(text)
            cps_ = [(p["name"], (p.get("type", {}).get("desugaredQualType") or p.get("type", {}).get("qualType", "")))
                    for p in node["inner"] if p.get("kind") == "ParmVarDecl"]
            fty_ = node.get("type", {}).get("qualType", "")
            parts.append("(* the C types (typedefs resolved) of the result and of the parameters of %s *)\n"
                         "Definition ctypes_%s : list string := [%s]." % (fn, fn, "; ".join(
                             '"%s"%%string' % x.replace('"', "'") for x in [fty_.split("(")[0].strip()] + ["%s : %s" % (a, b) for a, b in cps_])))
            parts.append("(* the automatic arrays and structs %s declares (those of the functions inlined into it included) *)\n"
                         "Definition locals_%s : list string := [%s]." % (fn, fn, "; ".join('"%s"%%string' % x for x in f.locals)))
            register_sig(repo, src, fn, f, params, outs, gl, rty)
            SIGS[fn].update(SIG_EXTRA.get(fn, {}))
            if fn in EXTERNS:
                API_OWN.add(fn)
            known[fn] = list(f.extra_params) + gl
            status[fn] = "ok" + (" (asserts: %s)" % ", ".join(f.asserts) if f.asserts else "")
        except Unsupported as e:
            parts.append(cmt("%s: NOT TRANSLATED: %s" % (fn, e)))
            status[fn] = "unsupported: %s" % e
        except Exception as e:   # noqa
            import traceback
            parts.append(cmt("%s: NOT TRANSLATED: %r" % (fn, e)))
            status[fn] = "error: %r %s" % (e, traceback.format_exc()[-300:])
    new = "\n\n".join(parts) + "\n"
    try:
        old = open(out).read()
    except OSError:
        old = None
    if old != new:
        open(out, "w").write(new)
    return status


def register_sig(repo, src, fn, f, params, outs, gl, rty):
    node = f.node
    cps = [(p["name"], ctype(p)) for p in node["inner"] if p.get("kind") == "ParmVarDecl"]
    fty = node.get("type", {}).get("qualType", "")
    extra = list(getattr(f, "extra_params", []))
    ety = getattr(f, "extra_ty", None)
    if ety is None:
        ety = {}
        for x in extra:
            ety[x] = {"fuel": "nat", "sgn": "bool"}.get(x, "list Z -> list Z * Z" if x.startswith("dep_") else dict(f.exts_used).get(x, "Z"))
    SIGS[fn] = dict(extra=extra, extra_ty=ety, globals=list(gl), params=list(params), outs=list(outs),
                    option=bool(f.uses_option_final), cparams=cps, void=fty.startswith("void "))


PRELUDE = """(* GENERATED by tools/c2coq.py from /repo's current sources - do not edit *)
From Coq Require Import ZArith List Bool.
Import ListNotations.
Local Open Scope Z_scope.

Fixpoint upd {A} (l : list A) (i : nat) (v : A) : list A :=
  match l, i with
  | [], _ => []
  | _ :: t, O => v :: t
  | h :: t, S i' => h :: upd t i' v
  end.

(* the value of a plain `char` read through a pointer into a NUL-terminated string given as the list of
   its bytes (0..255) up to the terminator; sgn = plain char is signed on the target *)
Definition rdc (sgn : bool) (s : list Z) : Z :=
  match s with
  | [] => 0
  | b :: _ => if sgn && (128 <=? b) then b - 256 else b
  end.

(* while (c) b, at most `fuel` iterations; None = the fuel ran out *)
Fixpoint whileF {S} (fuel : nat) (c : S -> bool) (b : S -> option S) (s : S) : option S :=
  match fuel with
  | O => None
  | Datatypes.S f => if c s then match b s with Some s' => whileF f c b s' | None => None end else Some s
  end.
"""


def table(repo, src, name):
    d = ast_of(repo, src, name)
    init = [c for c in d["inner"] if c.get("kind") == "InitListExpr"][0]
    vals = []
    for c in init["inner"]:
        while c["kind"] != "IntegerLiteral":
            c = c["inner"][0]
        vals.append(c["value"])
    return "Definition %s : list Z := [%s]." % (name, "; ".join(vals))


def cmt(text):
    """a Coq comment with this text: comment delimiters and string quotes inside it are defused"""
    return "(* " + str(text).replace("(*", "( *").replace("*)", "* )").replace('"', "'") + " *)"


def strip_casts(x):
    while x.get("kind") in ("ImplicitCastExpr", "ParenExpr") and x.get("inner"):
        x = x["inner"][0]
    return x


def wrapper(repo, fn, status):
    node = ast_of(repo, "lang.c", fn)
    params = [c["name"] for c in node.get("inner", []) if c.get("kind") == "ParmVarDecl"]
    if len(params) != 2:
        raise Unsupported("%s: two parameters expected" % fn)
    body = [c for c in node["inner"] if c.get("kind") == "CompoundStmt"][0].get("inner", [])
    if not body or body[-1].get("kind") != "ReturnStmt":
        raise Unsupported("%s: body does not end in a return" % fn)
    src = {}

    def deref_param(x):
        # *(const char**)p  ->  p
        x = strip_casts(x)
        if x.get("kind") != "UnaryOperator" or x.get("opcode") != "*":
            return None
        y = strip_casts(x["inner"][0])
        if y.get("kind") != "CStyleCastExpr" or ctype(y) != "char **":
            return None
        z = strip_casts(y["inner"][0])
        if z.get("kind") == "DeclRefExpr" and z["referencedDecl"]["name"] in params:
            return z["referencedDecl"]["name"]
        return None
    for st in body[:-1]:
        if st.get("kind") != "DeclStmt":
            raise Unsupported("%s: statement %s before the return" % (fn, st.get("kind")))
        for v in st.get("inner", []):
            if v.get("kind") != "VarDecl" or not v.get("inner"):
                raise Unsupported("%s: declaration without initialiser" % fn)
            if v.get("storageClass") == "static":
                raise Unsupported("%s: static local" % fn)
            p = deref_param(v["inner"][0])
            if p is None:
                raise Unsupported("%s: initialiser of %s is not *(const char**)parameter" % (fn, v["name"]))
            src[v["name"]] = p
    call = strip_casts(body[-1]["inner"][0]) if body[-1].get("inner") else {}
    if call.get("kind") != "CallExpr":
        raise Unsupported("%s: the returned value is not a call" % fn)
    callee = strip_casts(call["inner"][0])
    if callee.get("kind") != "DeclRefExpr":
        raise Unsupported("%s: indirect call" % fn)
    cname = callee["referencedDecl"]["name"]
    if not str(status.get(cname, "")).startswith("ok"):
        raise Unsupported("%s: callee %s is not a translated function" % (fn, cname))
    args = call["inner"][1:]
    want = 3 if cname.startswith("compare_prefix") else 2
    if cname not in ("compare_str", "compare_prefix", "compare_str_noaccent", "compare_prefix_noaccent") or len(args) != want:
        raise Unsupported("%s: unexpected callee %s/%d" % (fn, cname, len(args)))
    out = []
    for a in args[:2]:
        b = strip_casts(a)
        if b.get("kind") == "DeclRefExpr" and b["referencedDecl"]["name"] in src:
            out.append(src[b["referencedDecl"]["name"]])
        else:
            p = deref_param(a)
            if p is None:
                raise Unsupported("%s: argument is not one of the dereferenced parameters" % fn)
            out.append(p)
    extra = ""
    if want == 3:
        h = Fn(fn, node, [], {})
        n = cval(h.E(args[2]))
        if n is None:
            raise Unsupported("%s: length argument is not a constant" % fn)
        extra = " %d" % n
    names = {params[0]: "pa", params[1]: "pb"}
    return ("Definition %s (fuel : nat) (sgn : bool) (pa : list Z) (pb : list Z) : option (Z) :=\n  %s fuel sgn %s %s%s."
            % (fn, cname, names[out[0]], names[out[1]], extra))


def main():
    repo, out = sys.argv[1], sys.argv[2]
    load_enums(repo)
    parts = [PRELUDE]
    status = {}
    try:
        parts.append(table(repo, "gf.c", "polyseed_mul2_table"))
    except Exception as e:   # noqa
        parts.append(cmt("polyseed_mul2_table: not translated: %s" % e))
    known = {}
    for src, fn, params, outs, gl, rty in TARGETS:
        try:
            node = ast_of(repo, src, fn)
            f = Fn(fn, node, gl, known)
            f.repo = repo
            f.arr_len0 = dict(ARRAY_LEN.get(fn, {}))
            text = f.translate(params, outs, rty)
            if fn == "polyseed_poly_to_data":
                # memset(data->secret, 0, 32) and the four stores to fields of *data at the top
                pass
            parts.append(text)
            known[fn] = list(getattr(f, "extra_params", [])) + gl
            register_sig(repo, src, fn, f, params, outs, gl, rty)
            status[fn] = "ok" + (" (asserts: %s)" % ", ".join(f.asserts) if f.asserts else "")
        except Unsupported as e:
            parts.append(cmt("%s: NOT TRANSLATED: %s" % (fn, e)))
            status[fn] = "unsupported: %s" % e
        except Exception as e:   # noqa
            parts.append(cmt("%s: NOT TRANSLATED: %r" % (fn, e)))
            status[fn] = "error: %r" % e
    # the prefix length the two wrappers hand to the prefix comparers (third argument of the call)
    for wrap_fn, callee in (("compare_prefix_wrap", "compare_prefix"), ("compare_prefix_noaccent_wrap", "compare_prefix_noaccent")):
        try:
            node = ast_of(repo, "lang.c", wrap_fn)
            found = []

            def walk(x):
                if x.get("kind") == "CallExpr":
                    try:
                        h = Fn(wrap_fn, node, [], {})
                        if h.lval_name(x["inner"][0]) == callee:
                            found.append(cval(h.E(x["inner"][3])))
                    except Unsupported:
                        pass
                for c in x.get("inner", []):
                    if isinstance(c, dict):
                        walk(c)
            walk(node)
            if len(found) == 1 and found[0] is not None:
                parts.append("Definition %s_n : Z := %d." % (wrap_fn, found[0]))
                status[wrap_fn] = "ok"
            else:
                raise Unsupported("call of %s not found or its length argument is not a constant" % callee)
        except Unsupported as e:
            parts.append(cmt("%s: NOT TRANSLATED: %s" % (wrap_fn, e)))
            status[wrap_fn] = "unsupported: %s" % e
    # the four bsearch adapters as functions of the two strings their arguments point to: the body must be
    # exactly  key = *(const char**)<p>; elm = *(const char**)<q>; return <callee>(<x>, <y>[, <constant>]);
    # (declaration order free; which parameter feeds which argument, the callee and the constant are all read)
    for wrap_fn in ("compare_str_wrap", "compare_prefix_wrap", "compare_str_noaccent_wrap", "compare_prefix_noaccent_wrap"):
        try:
            parts.append(wrapper(repo, wrap_fn, status))
            status[wrap_fn + "(body)"] = "ok"
        except Unsupported as e:
            parts.append(cmt("%s (body): NOT TRANSLATED: %s" % (wrap_fn, e)))
            status[wrap_fn + "(body)"] = "unsupported: %s" % e
    new = "\n\n".join(parts) + "\n"
    try:
        old = open(out).read()
    except OSError:
        old = None
    if old != new:
        open(out, "w").write(new)
    import os
    try:
        status.update(api_main(repo, os.path.join(os.path.dirname(out), "CApi.v"), status))
    except Exception as e:   # noqa
        status["api"] = "error: %r" % e
    json.dump(status, sys.stdout)


if __name__ == "__main__":
    main()
