#!/bin/bash
# run_seeded.sh <seeded dir name> [property ids...]: apply a seeded change to /repo, run the checks, undo it.
d=/verif/seeded/$1; shift
props="$@"
[ -z "$props" ] && props=$(python3 -c "import json;print(json.load(open('$d/meta.json'))['property'])" 2>/dev/null)
cd /repo && git diff --quiet || { echo "/repo is dirty"; exit 2; }
git -C /repo apply $d/patch.diff || { echo "patch does not apply"; exit 2; }
trap 'git -C /repo checkout -- . ' EXIT
for p in $props; do
  (cd /verif && VERIF_SEED=${VERIF_SEED:-1} ./check $p --tier ${TIER:-quick} 2>&1 | grep -E "^(VIOLATION|OK|KNOWN)|\[check\]" )
done
