#!/bin/bash
# verify_seed.sh <id>: confirm a sub-agent's seeded change (tests pass, demo fails with it, passes without)
id=$1; wt=/tmp/wt/$id; out=/tmp/wt/out-$id
cd $wt || exit 2
# pristine copy of the library (never build against /repo's working tree: a seeded change may be applied there)
orig=/tmp/wt/orig-src; rm -rf $orig; mkdir -p $orig; git -C /repo archive HEAD | tar -x -C $orig
git -C $wt diff > /tmp/wt/check-$id.diff
cmp -s /tmp/wt/check-$id.diff $out/patch.diff || echo "NOTE: patch.diff differs from worktree diff"
rm -rf /tmp/wt/b-$id; cmake -S $wt -B /tmp/wt/b-$id -G Ninja -DCMAKE_BUILD_TYPE=RelWithDebInfo >/dev/null 2>&1 && cmake --build /tmp/wt/b-$id >/dev/null 2>&1
t=$(cd /tmp/wt/b-$id && ./polyseed-tests 2>&1 | tail -1); n=$(cd /tmp/wt/b-$id && ./polyseed-tests 2>&1 | grep -c PASSED)
echo "tests-with-change: $t ($n PASSED)"
rm -rf /tmp/wt/b-$id
gcc -O1 -w -DPOLYSEED_STATIC -iquote $wt/src -I$wt/include $out/demo.c $wt/src/*.c -lutf8proc -o /tmp/wt/demo-$id-mut 2>/tmp/wt/cc-$id.log || { echo "demo compile failed (mut)"; head -5 /tmp/wt/cc-$id.log; }
gcc -O1 -w -DPOLYSEED_STATIC -iquote $orig/src -I$orig/include $out/demo.c $orig/src/*.c -lutf8proc -o /tmp/wt/demo-$id-orig 2>/tmp/wt/cc-$id.log || { echo "demo compile failed (orig)"; head -5 /tmp/wt/cc-$id.log; }
/tmp/wt/demo-$id-mut >/tmp/wt/demo-$id-mut.out 2>&1; echo "demo with change: rc=$? $(tail -1 /tmp/wt/demo-$id-mut.out | cut -c1-150)"
/tmp/wt/demo-$id-orig >/tmp/wt/demo-$id-orig.out 2>&1; echo "demo original: rc=$? $(tail -1 /tmp/wt/demo-$id-orig.out | cut -c1-150)"
rm -f /tmp/wt/demo-$id-mut /tmp/wt/demo-$id-orig
rm -rf $orig
