"""Development aid (not used by any check): restates proved tie theorems in the property files.
    python3 tools/gen_prop_ties.py     (after `make` in coq/)"""
import subprocess, re, sys, tempfile, os
TMP = tempfile.mkdtemp()
HDR = '''From Coq Require Import String.
From PS Require Import Base GFDefs PackDefs StoreDefs MiscDefs StrDefs LangDefs ApiDefs SpecDefs SpecApi.
From PS Require Import GFProofs MiscProofs CoinProofs PackProofs PackTheorems StoreProofs SeedProofs ApiLemmas RefineProofs RoundTrip TraceProofs FrameProofs SafetyProofs HeldProofs.
From PS Require Import StrProofs CTieBase CTieLang CTiePhrase CTiePhraseEv CTieSplit CTieApi CTieDecode CTieEncode CTieLocals CTieInject CTieCmp CTieSearch CTieClosed CodeTheorems CodeMachine.
From PS.Gen Require Import Consts PrivConsts Langs.
From PS.Gen Require CFuns CApi.
Local Open Scope N_scope.
Set Printing Width 110.
'''
def typ(name):
    open(os.path.join(TMP, 'chk1.v'),'w').write(HDR + "Check @%s.\n" % name)
    out = subprocess.run(['coqc','-Q','.','PS',os.path.join(TMP, 'chk1.v')],stdout=subprocess.PIPE,stderr=subprocess.STDOUT,universal_newlines=True,cwd='/verif/coq').stdout
    i = out.index(name+"\n")
    body = out[i+len(name)+1:]
    body = body.strip()
    assert body.startswith(':')
    return body[1:].strip()

IMPORTS = '''
(* ---- the tie to the code: src/polyseed.c as TRANSLATED on this run (Gen/CApi.v) ---- *)
From Coq Require Import String.
From PS Require Import Base GFDefs PackDefs StoreDefs MiscDefs StrDefs LangDefs ApiDefs SpecDefs SpecApi GFProofs PackProofs StoreProofs RefineProofs RoundTrip TraceProofs FrameProofs SafetyProofs CTieBase CTieLang CTiePhrase CTiePhraseEv CTieSplit CTieApi CTieDecode CTieEncode CTieLocals CTieInject CTieCmp CTieSearch CTieClosed CodeTheorems HeldProofs CodeMachine.
From PS.Gen Require Import Consts PrivConsts Langs.
From PS.Gen Require CFuns.
From PS.Gen Require CApi.
'''
PLAN = {
 'C01': [('roundtrip','code_roundtrip_explicit','ON THE CODE: the phrase the translated polyseed_encode writes for a live seed of any reachable state, handed as a C string to the translated polyseed_decode_explicit (whose word search is the translated polyseed_lang_find_word), gives a new block holding the same struct - ties composed with C01_roundtrip_explicit; hypotheses: libc bsearch by contract, the injected normalisers (NormOK), fuel'),
         ('api_encode','tie_encode','polyseed_encode as translated against the mirror step: the phrase written is the words of the 16 coefficients joined by the separator, composed when the language asks for it'),
         ('api_decode_explicit','tie_decode_explicit','polyseed_decode_explicit as translated against the mirror step')],
 'C03': [('held_independent','code_held_independent','ON THE CODE: what the TRANSLATED polyseed_encode / store / crypt / keygen / queries / free do on a held seed does not depend on the feature set enabled at the time of the call - cstep_ok composed with HeldProofs.held_independent'), ('api_encode','tie_encode','polyseed_encode as translated: coefficient 0 is the stored check value, coefficient 1 carries the coin, word i of the output is word number coefficient i of the list')],
 'C17': [('write_str','tie_write_str','write_str as translated: the bytes of the word at the offset, the offset advanced by its length - while it fits the buffer'),
         ('api_encode','tie_encode','polyseed_encode as translated: every write stays inside str_tmp exactly when the joined phrase is shorter than POLYSEED_STR_SIZE (the case C17_bounds shows is the only one), and the length returned is the length written')],
 'C04': [('held_independent','code_held_independent','ON THE CODE: what the TRANSLATED polyseed_encode / store / crypt / keygen / queries / free do on a held seed does not depend on the feature set enabled at the time of the call - cstep_ok composed with HeldProofs.held_independent'), ('keygen','tie_keygen','polyseed_keygen as translated: exactly one call of the injected KDF, with the 32-byte secret buffer, the salt "POLYSEED key" 00 FF FF FF | coin | birthday | features | 0000 (little-endian 32-bit fields), 10000 iterations and the caller\'s key size; the key is what that call wrote')],
 'C06': [('api_load','tie_load','polyseed_load as translated against the mirror step: status, block, *seed_out, events - for every 32-byte buffer and either allocation outcome'),
         ('api_store','tie_store','polyseed_store as translated = the storage layout, for every canonical struct'),
         ('roundtrip','code_store_load','ON THE CODE: what the translated polyseed_store writes for a live seed of any reachable state, the translated polyseed_load turns back into the same struct (status OK, one allocation, one wipe of poly) - ties composed with C06_api_roundtrip')],
 'C09': [('split','tie_str_split','str_split as translated (offsets into the buffer, separators overwritten in place): the count returned and the tokens designated are the mirror\'s, for every NUL-free content'),
         ('api_decode','tie_decode','polyseed_decode as translated against the mirror step (lang_search an external function that answers as the mirror search)'),
         ('api_decode_explicit','tie_decode_explicit','polyseed_decode_explicit as translated against the mirror step'),
         ('decode_closed','tie_decode_closed','the chain closed: polyseed_decode as translated, the search of the language loop being the TRANSLATED polyseed_lang_find_word; left as hypotheses only libc bsearch (contract), the injected normaliser and the allocator'),
         ('decode_explicit_closed','tie_decode_explicit_closed','the same for polyseed_decode_explicit')],
 'C10': [('held_independent','code_held_independent','ON THE CODE: what the TRANSLATED polyseed_encode / store / crypt / keygen / queries / free do on a held seed does not depend on the feature set enabled at the time of the call - cstep_ok composed with HeldProofs.held_independent'), ('api_get_feature','tie_get_feature','polyseed_get_feature as translated'), ('api_is_encrypted','tie_is_encrypted_api','polyseed_is_encrypted as translated')],
 'C11': [('api_get_birthday','tie_get_birthday','polyseed_get_birthday as translated'), ('api_create','tie_create','polyseed_create as translated against the mirror step (birthday = birthday_encode of the injected clock)')],
 'C12': [('held_independent','code_held_independent','ON THE CODE: what the TRANSLATED polyseed_encode / store / crypt / keygen / queries / free do on a held seed does not depend on the feature set enabled at the time of the call - cstep_ok composed with HeldProofs.held_independent'), ('involution','code_crypt_twice','ON THE CODE: the translated polyseed_crypt applied twice with the same password returns the struct byte for byte - tie composed with C12_involution'),
         ('api_crypt','tie_crypt','polyseed_crypt as translated against the mirror step: one KDF call on the normalised password, the xor of 19 bytes, the cleared top bits, the toggled flag, the new check value, three wipes')],
 'C13': [('machine','cstep_ok','THE TRANSLATED CODE AS A MACHINE: one call of the Gallina generated from the current polyseed.c (every public function except polyseed_inject, which is tied separately) on a state - table, mask, heap of blocks, allocator counter - gives the same next state, output and events as the mirror step, for every well-formed call'),
         ('machine_run','crun_run','... and so does every history of calls'),
         ('machine_ready','ready_simple','the premise Ready is not vacuous: from every state related to an abstract state (every reachable state) every history of calls that take no strings is runnable, given the C preconditions and integer arguments in range'),
         ('code_refinement','code_refinement','composed with C13_refinement: any history of calls of the translated code gives, call by call, the outputs of the abstract seed machine and ends in a related state'),
('api_create','tie_create','polyseed_create as translated = the mirror step the refinement is about'),
         ('api_load','tie_load','polyseed_load as translated = the mirror step'),
         ('api_decode','tie_decode','polyseed_decode as translated = the mirror step (up to the wipe of `idx`, which is inside polyseed_phrase_decode)'),
         ('api_decode_explicit','tie_decode_explicit','polyseed_decode_explicit as translated = the mirror step'),
         ('api_crypt','tie_crypt','polyseed_crypt as translated = the mirror step')],
 'C15': [('api_load','tie_load','polyseed_load as translated: the allocation and free events of every exit'),
         ('api_free','tie_free','polyseed_free as translated: wipe, then free, of the block'),
         ('api_free_null','tie_free_null','polyseed_free(NULL) as translated: no event'),
         ('api_decode','tie_decode','polyseed_decode as translated: the allocation and free events of every exit'),
         ('machine_ledger','code_ledger','ON THE CODE: the ledger theorem read off the events of one call of the translated code (CodeMachine.cstep), for every well-formed call on a fresh state')],
 'C16': [('api_free','tie_free','polyseed_free as translated: MEMZERO_PTR of the whole struct immediately before FREE'),
         ('api_decode','tie_decode','polyseed_decode as translated: str_tmp, words and poly are wiped on every exit'),
         ('api_crypt','tie_crypt','polyseed_crypt as translated: poly, mask and pass_norm are wiped'),
         ('idx','tie_phrase_decode_ev','polyseed_phrase_decode translated with its events: exactly one wipe of idx on every return, the MULT_LANG one included; otherwise it is the pure translation tied in C09'),
         ('api_encode','tie_encode','polyseed_encode as translated: poly and str_tmp are wiped'),
         ('machine_frees_wiped','code_frees_wiped','ON THE CODE: every free among the events of a call of the translated code is preceded by the wipe of the whole block'),
         ('machine_frame_clean','code_frame_clean','ON THE CODE: every automatic object tainted on the exit taken is wiped among the events of the call of the translated code'),
         ('locals','tie_locals','the automatic arrays and structs of every translated API function, as found in the current source, are the objects the wipe accounting knows plus the two public salts: a new temporary breaks this'),
         ('locals_accounted','locals_accounted','each of them maps to an object of the mirror (CTieApi.cobj) or is a salt')],
 'C14': [('machine_no_fault','code_no_fault','ON THE CODE: on every well-formed call the translated code terminates within the fuel and does not reach the fault value (it equals the mirror step, which never faults)'),
         ('machine_status_range','code_status_range','ON THE CODE: the status a constructor of the translated code returns is one of those documented for it')],
 'C20': [('machine_interleaving','code_interleaving','ON THE CODE: for any global order of calls on seeds, the calls on one thread\'s seeds give - in histories of the translated code - what they give when run alone (calls as atomic steps; the static storage is observed by the write-protected segment)')],
 'C19': [('split','tie_str_split','str_split as translated reads plain chars through the signedness parameter; for either setting it computes the mirror split, which does not mention signedness')],
 'C05': [('signatures','tie_ctypes','the C types of the parameters of the translated functions (the coin is `enum polyseed_coin`, an int: every coin below 2048 reaches the xor unchanged), as clang reports them for the current headers')],
 'C18': [('api_create','tie_create','polyseed_create as translated: one allocation, one clock read, one request for 19 random bytes - all through the table - and the secret is those bytes'),
         ('api_keygen','tie_keygen','polyseed_keygen as translated: the key is what the injected KDF wrote'),
         ('machine_uses_table','code_uses_table','ON THE CODE: every event of a call of the translated code goes through the table in place'),
         ('inject','tie_inject','polyseed_inject as translated (release build): the table in place afterwards is a copy of the one handed in, NULL time / alloc / free replaced each by its own libc default, every entry replaced, nothing kept from the previous table')],
 'C08': [('get_comparer','tie_get_comparer','get_comparer as translated: the comparer selected for a language from its two flags, run as translated, is the mirror comparer of the one token rule'),
         ('lang_search','tie_lang_search','lang_search as translated: binary search or linear scan by the is_sorted flag, first match of the scan, index or -1 - the mirror search, for every NUL-free token (libc bsearch by contract)'),
         ('find_word','tie_lang_find_word','polyseed_lang_find_word as translated: get_comparer, then lang_search')],
 'C07': [('find_word','tie_lang_find_word','polyseed_lang_find_word as translated is the mirror search C07_self_index is about')],
}
for prop, items in PLAN.items():
    p = '/verif/coq/Properties_%s_tie.v' % prop
    if os.path.exists(p):
        s = open(p).read()
    else:
        s = "(* %s - the tie to the code: theorems about the Gallina that tools/c2coq.py generates from /repo's CURRENT\n   sources on every run (Gen/CFuns.v, Gen/CApi.v). *)\nFrom Coq Require Import NArith List.\nLocal Open Scope N_scope.\n" % prop
    if 'src/polyseed.c as TRANSLATED' in s:
        s = s[:s.index('\n(* ---- the tie to the code: src/polyseed.c as TRANSLATED')]
    s += IMPORTS
    for suffix, lemma, comment in items:
        ty = typ(lemma)
        nm = '%s_code_tie_%s' % (prop, suffix)
        s += '\n(* %s *)\nTheorem %s :\n  %s.\nProof. exact %s. Qed.\nPrint Assumptions %s.\n' % (comment, nm, ty.replace('\n','\n  '), '@'+lemma, nm)
    open(p,'w').write(s)
    print(prop, len(items))
