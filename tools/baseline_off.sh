#!/bin/bash
# The repository's own test suite with the verification guard OFF (no -DPOLYSEED_VERIF), in a scratch build dir.
d=$(mktemp -d /tmp/polyseed-baseline.XXXXXX)
trap 'rm -rf "$d"' EXIT
cmake -S /repo -B "$d" -G Ninja -DCMAKE_BUILD_TYPE=RelWithDebInfo >/dev/null 2>&1 && cmake --build "$d" >/dev/null 2>&1 || { echo "build failed"; exit 1; }
cd "$d" && ./polyseed-tests
