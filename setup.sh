#!/bin/bash
# Build the whole framework offline from files on disk: regenerate Gen/* from /repo,
# full .vo build of the Coq development (no -vos), extraction + model driver, C drivers.
set -e
cd "$(dirname "$0")"
python3 - <<'PY'
import sys, os
sys.path.insert(0, os.getcwd())
from harness import core, extras
with core.Lock():
    info = core.regenerate()
    print("[setup] generated:", info)
    core.coq_project()
ok, out = core.coq_make(["all"], timeout=6000)
open(os.path.join(core.BUILD, "coq.setup.log"), "w").write(out)
if not ok:
    print(out[-4000:])
    print("[setup] WARNING: the Coq development did not build completely (see build/coq.setup.log)")
with core.Lock():
    core.build_model()
    for v in ("asan", "asan_uchar", "asan_schar", "o0", "o2", "dbg"):
        core.build_cdriver(v)
extras.build_frame_driver()
print("[setup] done")
PY
